"""C05 - replicated data survives the loss of a minority of store nodes. See DESIGN.md section 4 C05 and NOTES.md."""
import json
import os
import re
import sys

sys.path.insert(0, os.path.dirname(os.path.abspath(__file__)))
import vlib  # noqa: E402

PID = "C05"

F_TRUNC = "C05-replay-skipped-after-truncation"
F_PID = "C05-proposeid-reuse"
F_ACKERR = "C05-ack-despite-apply-error"
F_FORCED = "C05-forced-truncation-strands-member"
F_STALE = "C05-stale-tolerance-timer-after-leadership-loss"
F_LAG = "C05-master-elected-before-catch-up"
F_RACE = "C05-restart-replay-after-newer-entries"
RACE_TEXT = ("the restart replay of a rejoining member is not ordered before the entries raft publishes after the restart: an older "
             "write re-applied by the replay overwrites a newer acknowledged write of the same point on that replica for good")


# ------------------------------------------------------------------ rendering harness cases as Coq terms
def nat(x):
    return "%d" % int(x)


def nlist(xs):
    return "[" + "; ".join(nat(x) for x in (xs or [])) + "]"


def Nn(x):
    return "%d%%N" % int(x)


def hexbytes(h):
    b = bytes.fromhex(h or "")
    return "[" + "; ".join("%d" % x for x in b) + "]%N"


def batch(b):
    return "[" + "; ".join("(%d%%N, %s)" % (kv[0], vlib.coq_z(kv[1])) for kv in (b or [])) + "]"


def rg(o):
    if not o or not o.get("ok"):
        return "None"
    return "(Some (%s, %s))" % (nat(o["m"]), nlist(o.get("ps")))


# a case the model must reject: the coordinator reports an error although the store's only answer was ok
CANARY = "CCoord [WOk] false 1"


def contiguous(xs):
    return all(xs[i] + 1 == xs[i + 1] for i in range(len(xs) - 1))


def case_coq(c):
    k = c["kind"]
    if k == "rot":
        ps = "[" + "; ".join("(%d, %s)" % (p, "true" if r == 1 else "false") for p, r in zip(c.get("ps") or [], c.get("roles") or [])) + "]"
        upd = rg(c["upd"]) if c["getnew"].get("ok") else "None"
        return "CRot %s %s %s %s %s %s %s %s" % (nat(c["m"]), ps, nlist(c.get("online")), nat(c["newm"]), rg(c["getnew"]), upd,
                                                 nlist(c.get("genp")), rg(c["elect"]))
    if k == "dw":
        return "CDw %s %s %s %s %s" % (Nn(c["type"]), hexbytes(c["ident"]), Nn(c["pid"]), hexbytes(c["data"]), hexbytes(c["bytes"]))
    if k == "dwbad":
        res = "None"
        if c["ok"]:
            res = "(Some (%s, %s, %s, %s))" % (Nn(c["utype"]), hexbytes(c["uident"]), Nn(c["upid"]), hexbytes(c["udata"]))
        return "CDwBad %s %s" % (hexbytes(c["bytes"]), res)
    if k == "replay":
        rp = c.get("replayed") or []
        rep = "None" if not rp else "(Some (%d, %d, %d))" % (rp[0], rp[-1], len(rp))
        return "CReplay %s %s %s %s %s %s %s %s" % (nat(c["fileSize"]), nat(c["n"]), nat(c["commit"]), nat(c["snap"]), nlist(c.get("clears")),
                                                    nat(c["first"]), rep, nat(c["applied"]))
    if k == "ack":
        evs = []
        for e in c["events"]:
            t = e[0]
            if t == "P":
                evs.append("MP %d %s" % (e[1], batch(e[2])))
            elif t == "K":
                evs.append("MK %d" % e[1])
            elif t == "R":
                evs.append("MR %d" % e[1])
            elif t == "E":
                evs.append("ME %d" % e[1])
            elif t == "RR":
                evs.append("MRR %d %d" % (e[1], e[2]))
            elif t == "RC":
                evs.append("MRC %d" % e[1])
            elif t == "RL":
                evs.append("MRL %d %d" % (e[1], e[2]))
            elif t == "A":
                evs.append("MA %d %d" % (e[1], e[2]))
            else:
                raise ValueError(t)
        return "CAck [%s] [%s] %s" % ("; ".join(evs), "; ".join(batch(b) for b in (c.get("acked") or [])), batch(c.get("final")))
    if k == "ackerr":
        return "CAckErr %s" % ("true" if c["erracked"] else "false")
    if k == "coord":
        m = {"ok": "WOk", "retry-pt": "WRetry", "retry-conn": "WRetry", "fail": "WFail", "shardmeta": "WFail"}
        return "CCoord [%s] %s %d" % ("; ".join(m[x] for x in c["script"]), "true" if c["acked"] else "false", c["calls"])
    if k == "trunc":
        bl = lambda xs: "[" + "; ".join("true" if x else "false" for x in xs) + "]"
        nl = lambda xs: "[" + "; ".join(Nn(x) for x in xs) + "]"
        rs = ["(%s, %s, %s, %s, %s, %s, %s)" % (vlib.coq_z(r["adv"]), "true" if r["lead"] else "false", bl(r["alive"]), nl(r["match"]),
                                                 Nn(r["snap"]), "None" if r["prop"] < 0 else "(Some %s)" % Nn(r["prop"]),
                                                 "true" if r["armed"] else "false") for r in c["rounds"]]
        return "CTrunc %s %s %s %s [%s]" % (Nn(c["fileSize"]), Nn(c["first"]), Nn(c["last"]), vlib.coq_z(c["t"]), "; ".join(rs))
    if k == "send":
        pr = "; ".join("(%s, %s)" % (Nn(p["k"]), "true" if p["msg"] == "app" else "false") for p in c["probes"])
        sl = "; ".join("(%s, %s, %s, %s)" % (Nn(q["i"]), "None" if q["file"] < 0 else "(Some %d)" % q["file"], vlib.coq_z(q["off"]),
                                             "true" if q["termOk"] else "false") for q in c["slots"])
        return "CSend %s %s %s %s [%s] [%s]" % (Nn(c["fileSize"]), Nn(c["first"]), Nn(c["last"]), Nn(c["snap"]), pr, sl)
    if k == "readsel":
        return "CReadSel %s %s [%s] %s %s" % ("true" if c["health"] else "false", nat(c["master"]),
                                              "; ".join("true" if x else "false" for x in c["online"]), nlist(c["shardPts"]), nlist(c.get("sel")))
    if k == "persist":
        acks = ["(%d, %d, %d, %d)" % (st.get("index", 0), st.get("term", 0), st.get("lastAt", 0), st.get("termAt", 0))
                for st in c["steps"] if st.get("msg") in ("appresp", "voteresp")]
        return "CPersist [%s]" % "; ".join(acks)
    if k == "batch":
        m = {"ok": "WOk", "retry-pt": "WRetry", "retry-conn": "WRetry", "fail": "WFail", "shardmeta": "WFail"}
        return "CBatch [%s] %s %s" % ("; ".join("[" + "; ".join(m[x] for x in sc) + "]" for sc in c["scripts"]),
                                      "true" if c["acked"] else "false", nlist(c["calls"]))
    if k == "group" and c["forced"] == "replayrace":
        return "CGroupR %s" % ("true" if c["missing"] > 0 else "false")
    if k == "group" and c["forced"] == "lagmaster":
        return "CGroupL %s" % ("true" if c["missing"] > 0 else "false")
    if k == "group" and c["forced"] in ("second", "stale"):
        return "CGroupT %s %s" % ("true" if c["forced"] == "stale" else "false", "true" if c["missing"] > 0 else "false")
    if k == "group":
        return "CGroup %s %s" % ("true" if c["forced"] in ("time", "size") else "false", "true" if c["missing"] > 0 else "false")
    if k == "conflict":
        bl = lambda bs: "[" + "; ".join(batch(b) for b in (bs or [])) + "]"
        return "CConflict %s %d %s %s" % (bl(c["old"]), c["j"], bl(c["new"]), bl(c.get("applied")))
    raise ValueError(k)


def trunc_signature(c):
    """finding C05-replay-skipped-after-truncation: the member's entry log starts after its own snapshot index (a
    ClearEntryLog with a larger index was applied), it is killed with commit > applied, and the restart replays nothing"""
    return (c["kind"] == "replay" and c["first"] > max(1, c["snap"]) and c["commit"] > c["appliedAt"]
            and not (c.get("replayed") or []) and any(x > c["snap"] for x in (c.get("clears") or [])))


def forced_signature(c):
    """finding C05-forced-truncation-strands-member: the tolerate-time or the size branch truncated the leader's entry
    log past the last index of a member that was down, and the member rejoined (raft snapshot without shard data)"""
    return c["kind"] == "group" and c["forced"] in ("time", "size") and c["firstLeader"] > c["victimLast"] + 1


def stale_signature(c):
    """finding C05-stale-tolerance-timer-after-leadership-loss: the forced branch fires although the group was seen
    healthy less than the tolerate time before, and between the round that started the tolerance period (this node as
    the leader saw a member down) and the round that fires, every round in which all members were alive was a round
    in which this node was NOT the leader (today's rule leaves the timer alone in such a round). A healthy round seen
    as the leader inside that window puts the case outside the signature."""
    if c["kind"] == "group":
        return c["forced"] == "stale" and c["firstLeader"] > c["victimLast"] + 1
    if c["kind"] != "trunc" or not c.get("bad"):
        return False
    rounds, T = c["rounds"], c["t"]
    clock, armed, fires = 0, None, set()
    for i, r in enumerate(rounds):
        clock += r["adv"]
        if not r["lead"] or r["snap"] == 0:
            continue
        if all(r["alive"]):
            armed = None
            continue
        if armed is None:
            armed = (clock, i)
        if clock - armed[0] > T:
            healthy = [j for j in range(armed[1] + 1, i) if all(rounds[j]["alive"])]
            if healthy and all(not rounds[j]["lead"] for j in healthy):
                fires.add(i)
            armed = None
    return all(b in fires for b in c["bad"])


def lag_signature(c):
    """finding C05-master-elected-before-catch-up: the master's store is down (one store down), electRgMaster + GetAliveShards map
    reads to the member that rejoined a moment ago, and that member's applied index is behind the applied index of the
    caught-up live member at that moment"""
    return (c["kind"] == "group" and c["forced"] == "lagmaster" and c.get("target") == c["victim"]
            and c["victimApplied"] < c["groupCommit"])


def race_signature(c):
    """finding C05-restart-replay-after-newer-entries (in-process): the rejoined member has caught up in raft terms, and every
    acknowledged point that is wrong on it shows exactly the value of the older entry that its restart replay re-applied"""
    return (c["kind"] == "group" and c["forced"] == "replayrace" and c["missing"] > 0 and c["missing"] == c.get("staleOld")
            and c["victimApplied"] >= c["groupCommit"])


def open_finding(ck, fid):
    """ck.match_finding, extended by this property's own fragment for entries not yet merged into known_findings.json"""
    f = ck.match_finding(fid)
    if f:
        return f
    if any(x["id"] == fid for x in ck.findings):
        return None
    frag = os.path.join(os.path.dirname(os.path.abspath(__file__)), "findings.json")
    for x in json.load(open(frag))["findings"]:
        if x["id"] == fid and x.get("status") == "open":
            return x
    return None


def main(ck):
    ck.assumptions += [
        "etcd/raft is trusted: leader completeness, log matching, quorum commit and state-machine safety are Section "
        "hypotheses of every trace theorem (premises, not axioms); Example raft_hypotheses_satisfiable instantiates them",
        "timing (WaitCommitTimeout, election timeouts) and real network behaviour are outside the model, except the "
        "tolerance timer of the truncation decision, which is state of the decision model (Trunc.v: rounds carry the wall "
        "clock, which is only assumed not to go back); the forced truncation branches are modelled (TruncForce, TruncLocal, "
        "RSnapshot): leader_keeps_what_members_lack holds under wf_cfg's trunc_all, catch_up_from_log_guaranteed under "
        "'every truncation index lies inside what every member holds of the committed sequence' (sound), today's forced "
        "branches are refuted",
        "catch_up_from_log_guaranteed has a fifth raft hypothesis H_keep (replication never removes a committed entry "
        "from a follower's log) and the trace hypothesis sound_run: for the healthy branch it asks that the minimum "
        "Progress.Match over ALL members is a lower bound of the committed prefix every member durably holds (true in "
        "etcd/raft once the leader has committed an entry of its term); raft snapshots go to members only",
        "decision model <-> group machine: DHealthy/DForce of Trunc.decide are the TruncPropose/TruncForce events of "
        "Model.step (correspondence by construction of the harness, not a Coq theorem); Trunc.v uses the file ids SlotGe "
        "reports relative to the current log, Model.trunc_idx absolute file numbers (same deletions, see NOTES.md)",
        "the local apply of a committed entry succeeds in the trace model (storage faults are not in the property's "
        "fault space); the ack rule under apply failure is modelled and tied separately (commit_result_*)",
        "shard WAL enabled (product default): with wal-enabled=false the snapshot index is persisted before the data files "
        "are committed and Example snapshot_window_without_wal shows the loss; crash safety of the shard WAL itself is C01",
        "in-process tie: the harness plays etcd/raft (proposeC -> log -> PublishEntries) and the shard (recording LWW "
        "store) around the real WriteToRaft / readCommitFromRaft / dealCommitData / RaftNode / RaftDiskStorage code",
    ]
    ck.cov["trusted_base"] = ["Coq 8.16.1 kernel + vm_compute (Examples, Refuted witnesses, case evaluation)",
                              "truncation-decision tie: scripted raft.Node (Status only) and meta liveness, tolerance clock moved "
                              "through the hook VerifAgeTolerateTimer; append-vs-snapshot tie: etcd/raft RawNode v3.5.10 as shipped",
                              "Print Assumptions: closed under the global context (no axioms)",
                              "Go harness cmd/c05 (fake raft driver, recording storage), python driver props/C05/run.py"]
    ck.coq_audit(["C05"])
    ok = ck.coq_build(["C05/Final.vo", "C05/TruncProofs.vo", "C05/Catchup.vo", "C05/Refine.vo", "C05/RestartRace.vo", "C05/TruncPM.vo", "C05/Coord.vo", "C05/Persist.vo", "C05/Corr.vo"])
    ck.c05_open = lambda fid: open_finding(ck, fid)     # for the cluster driver
    if ok:
        ck.coq_props(["C05/Props.v", "C05/Refuted.v"])
    ck.log("coq done")
    binp = ck.go_build("./cmd/c05", "c05")
    ck.log("go build done")
    if not binp:
        return
    n = 400 if ck.tier == "quick" else 6000
    import subprocess
    import threading
    env = dict(vlib.goenv(), VERIF_SEED=str(ck.seed), VERIF_TIER=ck.tier, VERIF_WORK=ck.work)
    if ck.replay:
        # re-run EXACTLY the recorded case on the implementation and on the model
        rp = json.load(open(ck.replay))
        if rp.get("kind") in ("direct-oracle-cluster",) or (rp.get("detail") or {}).get("kind") == "cluster-history-not-accepted":
            ck.log("replay of a cluster history: the cluster run cannot be repeated exactly; re-evaluating the recorded history on the model")
            import importlib.util
            spec = importlib.util.spec_from_file_location("c05_cluster", os.path.join(os.path.dirname(os.path.abspath(__file__)), "cluster.py"))
            m = importlib.util.module_from_spec(spec)
            spec.loader.exec_module(m)
            h = (rp.get("detail") or {}).get("history") or rp.get("converted_history")
            if h is None:
                ck.broken.append("replay file carries no converted history")
                return
            info = m.accept_converted(ck, h)
            ck.log("model acceptance of the recorded history: %s" % info)
            return
        one = os.path.join(ck.work, "one.json")
        json.dump(rp.get("case") or (rp.get("detail") or {}).get("case") or rp, open(one, "w"))
        rc, out = ck.run([binp, "one", one], timeout=600)
        cases = [json.loads(l) for l in out.splitlines() if l.startswith('{"kind"')]
        if rc != 0 or len(cases) != 1:
            ck.broken.append("harness c05 one failed rc=%d: %s" % (rc, out[-400:]))
            return
        ck.log("replayed case: %s" % json.dumps(cases[0])[:600])
        gprocs, cth = [], None
    else:
        # the real 3-node group scenarios run as separate processes next to the case stream, the cluster in a thread
        gprocs = [subprocess.Popen([binp, "group", "30100", f], stdout=subprocess.PIPE, stderr=subprocess.DEVNULL, text=True,
                                   cwd=ck.work, env=env) for f in ("time", "size", "none", "lag", "second", "stale", "lagmaster")]
        gprocs.append(subprocess.Popen([binp, "group", "0", "replayrace"], stdout=subprocess.PIPE, stderr=subprocess.DEVNULL, text=True,
                                       cwd=ck.work, env=env))
        pproc = subprocess.Popen([binp, "persist", str(6 if ck.tier == "quick" else 60)], stdout=subprocess.PIPE, stderr=subprocess.DEVNULL,
                                 text=True, cwd=ck.work, env=env)
        cth = threading.Thread(target=cluster, args=(ck,))
        cth.start()
        rc, out = ck.run([binp, "cases", str(n)], timeout=3000)
        cases = [json.loads(l) for l in out.splitlines() if l.startswith('{"kind"')]
        if rc != 0 or len(cases) < n:
            ck.broken.append("harness c05 failed rc=%d cases=%d: %s" % (rc, len(cases), out[-600:]))
            cth.join()
            return
        try:
            pout, _ = pproc.communicate(timeout=240)
        except subprocess.TimeoutExpired:
            pproc.kill()
            pout = ""
        pc = [json.loads(l) for l in pout.splitlines() if l.startswith('{"kind"')]
        if len(pc) < 3 + (6 if ck.tier == "quick" else 60):
            ck.broken.append("harness c05 persist produced %d cases" % len(pc))
        cases += pc
        for gp in gprocs:
            try:
                gout, _ = gp.communicate(timeout=600)
            except subprocess.TimeoutExpired:
                gp.kill()
                gout = ""
            gc = [json.loads(l) for l in gout.splitlines() if l.startswith('{"kind"')]
            if len(gc) != 1:
                ck.broken.append("harness c05 group scenario produced no result")
            elif gc[0].get("scenario") != "ran":
                ck.notes.append("group scenario not run: %s" % gc[0].get("note"))
            else:
                cases += gc
    stopped = [c for c in cases if c["kind"] == "stopped"]
    cases = [c for c in cases if c["kind"] != "stopped"]
    if stopped:
        ck.cov["observation_write_on_stopped_raft_node"] = stopped[0]   # outside the fault space; see NOTES.md
    ck.log("harness done: %d cases" % len(cases))
    for i, c in enumerate(cases):
        if c["kind"] in ("trunc", "send", "persist") and c.get("err"):
            ck.broken.append("harness case %d (%s) could not be run: %s" % (i, c["kind"], c["err"]))
    # sanity of the replay observations (contiguous range ending at commit)
    for i, c in enumerate(cases):
        if c["kind"] == "replay" and c.get("replayed"):
            if not contiguous(c["replayed"]) or c["replayed"][-1] != c["commit"]:
                ck.broken.append("replay case %d: replayed indexes are not a contiguous range ending at the commit index" % i)

    # model evaluation, sharded (replica-group creation cases are checked by the direct oracle only)
    shard = 150
    midx = [i for i, c in enumerate(cases) if c["kind"] != "rgcreate"]
    files = []
    for j in range(0, len(midx), shard):
        chunk = [cases[i] for i in midx[j:j + shard]]
        txt = ("From Coq Require Import List Arith NArith ZArith Bool. From OG Require Import C05.Model C05.Corr.\n"
               "Import ListNotations.\nDefinition cases : list case := [\n%s\n].\n"
               "Definition M := Eval vm_compute in classify_all cases.\nPrint M.\n") % ";\n".join([case_coq(c) for c in chunk] + [CANARY])
        files.append(("cases%d" % (j // shard), txt))
    res = ck.coq_eval_many(files, timeout=600) if ok else []
    codes = [0 if c["kind"] == "rgcreate" else None for c in cases]
    for idx, (rc2, o) in enumerate(res):
        m = re.search(r"M\s*=\s*\[(.*?)\]\s*:\s*list nat", o, re.S)
        want = midx[idx * shard:(idx + 1) * shard]
        got = [int(x) for x in re.findall(r"\d+", m.group(1))] if m else []
        # every shard ends with a canary case that the model must reject (code 3): a reading that does not see it is blind
        if rc2 != 0 or len(got) != len(want) + 1 or got[-1] != 3 or any(g not in (0, 1, 2, 3) for g in got):
            ck.broken.append("model evaluation failed on shard %d (codes read: %d of %d, canary %s): %s"
                             % (idx, len(got), len(want) + 1, got[-1:] or "missing", o[-400:]))
            continue
        got = got[:-1]
        for i, g in zip(want, got):
            codes[i] = g

    ck.log("model evaluation done")
    # ---- verdicts
    kinds = {}
    variants = {"replay": set(), "ack": set(), "ackerr": set(), "group": set(), "trunc": set(), "groupT": set(), "groupL": set(), "groupR": set()}

    def vkey(c):
        if c["kind"] == "group" and c["forced"] in ("second", "stale"):
            return "groupT"
        if c["kind"] == "group" and c["forced"] == "lagmaster":
            return "groupL"
        if c["kind"] == "group" and c["forced"] == "replayrace":
            return "groupR"
        return c["kind"]

    mism = []
    for i, (c, code) in enumerate(zip(cases, codes)):
        kinds[c["kind"]] = kinds.get(c["kind"], 0) + 1
        if code is None:
            continue
        if code == 3:
            mism.append(i)
        elif code in (1, 2) and vkey(c) in variants:
            variants[vkey(c)].add(code)
    for k, v in variants.items():
        if v == {1, 2}:
            ck.broken.append("correspondence C05/%s: implementation matches today's variant on some cases and the repaired one on others" % k)
    ck.notes.append("variant detected (1=today's code, 2=repaired, empty=indistinguishable): " +
                    ", ".join("%s=%s" % (k, sorted(v)) for k, v in variants.items()))

    # direct oracle failures on the implementation
    oracle_fail = []
    for i, c in enumerate(cases):
        fails = list(c.get("oracle") or [])
        sigs = list(c.get("oraclesig") or [None] * len(fails))
        if c["kind"] == "ackerr" and c["erracked"]:
            fails.append("write acknowledged although the local apply of its committed entry failed")
            sigs.append(F_ACKERR)
        for what, sig in zip(fails, sigs + [None] * len(fails)):
            fid = None
            if c["kind"] == "replay" and trunc_signature(c):
                fid = F_TRUNC
            elif c["kind"] == "ack" and sig == F_PID and c.get("pidreuse"):
                fid = F_PID
            elif c["kind"] == "ackerr" and sig == F_ACKERR:
                fid = F_ACKERR
            elif c["kind"] == "group" and forced_signature(c):
                fid = F_FORCED
            elif c["kind"] in ("group", "trunc") and stale_signature(c):
                fid = F_STALE
            elif c["kind"] == "group" and lag_signature(c):
                fid = F_LAG
            elif c["kind"] == "group" and race_signature(c):
                fid = F_RACE
            oracle_fail.append((i, what, fid))
    reported = 0
    for i, what, fid in oracle_fail:
        if fid and open_finding(ck, fid):
            fixed_text = {
                F_FORCED: "a member that was down while the tolerate-time/size branch truncated the leader's log rejoins through a "
                          "raft snapshot without shard data and lacks acknowledged points",
                F_TRUNC: "restart replays nothing after a ClearEntryLog beyond the member's own snapshot index; committed entries "
                         "not yet applied are lost on that replica",
                F_LAG: "after the store of the master partition died, electRgMaster makes the first online slave peer the master and "
                       "reads are mapped to it although it rejoined a moment ago and has not caught up: with one store down "
                       "acknowledged points are missing or stale in the answers until it has caught up",
                F_RACE: RACE_TEXT,
                F_STALE: "the tolerance timer of the truncation decision keeps running while the node is not the leader: a node that "
                         "regains the leadership during a later, short outage forces the truncation at once although the group was "
                         "healthy in between (real group: the rejoined member then lacks acknowledged points)",
            }
            ck.known_finding(fid, fixed_text.get(fid, what))
        elif reported < 3:
            reported += 1
            ck.violation({"kind": "direct-oracle", "what": what, "case_index": i, "case": cases[i], "matched_signature": fid,
                          "how": "VERIF_SEED=%d harness/cmd/c05 cases %d (case %d of the stream)" % (ck.seed, n, i)})
    # a disagreeing case that also fails the direct oracle is reported there; every OTHER disagreeing case is a broken
    # correspondence (one overlapping case must not hide the rest)
    ofail = {x[0] for x in oracle_fail}
    rest = [i for i in mism if i not in ofail]
    if len(rest) < len(mism):
        ck.notes.append("%d cases disagree with both model variants and also fail the direct oracle (reported above)" % (len(mism) - len(rest)))
    if rest:
        i = rest[0]
        ck.broken.append("correspondence C05: model and implementation differ on case %d (%s)" % (i, cases[i]["kind"]))
        ck.nofail_detail = {"kind": "correspondence", "case_index": i, "case": cases[i],
                            "explanation": "the implementation's observable differs from both model variants; the direct oracles "
                                           "(rotation permutes the group, codec round-trips, committed entries are replayed or already "
                                           "applied, ack only after own rows applied) found no failing input"}

    # coverage
    def nontrivial(c):
        k = c["kind"]
        if k == "rot":
            return c["getnew"]["ok"] or c["elect"]["ok"]
        if k in ("dw", "dwbad"):
            return True
        if k == "rgcreate":
            return len(c.get("groups") or []) > 1
        if k == "replay":
            return bool(c.get("clears")) or c["commit"] > c["appliedAt"]
        if k in ("conflict", "coord", "group", "send", "batch", "persist"):
            return True
        if k == "readsel":
            return len(c.get("sel") or []) > 0
        if k == "trunc":
            return any(r["prop"] >= 0 for r in c["rounds"]) or any(r["armed"] for r in c["rounds"])
        if k == "ack":
            return any(o["op"] == "c" for o in (c.get("ops") or [])) and any(o["op"] == "w" for o in (c.get("ops") or []))
        return True
    distinct = set()
    for c in cases:
        if nontrivial(c):
            key = dict(c)
            for f in ("oracle", "oraclesig"):
                key.pop(f, None)
            distinct.add(json.dumps(key, sort_keys=True))
    ck.cov["evaluations"] = len(cases)
    ck.cov["distinct_nontrivial"] = len(distinct)
    ck.cov["traces_validated_against_impl"] = len([c for c in codes if c in (0, 1, 2)])
    ck.cov["rule"] = ("cases from one PRNG: rotation (GetNewRg/UpdateReplication/GenerateNewPeer/electRgMaster on groups of 1-7 "
                      "partitions incl. malformed groups, non-member and identical new masters), replica-group creation "
                      "(NodeHardCreateDBRG, oracle only), DataWrapper codec (boundary types/ids/lengths + malformed/truncated bytes), "
                      "restart-replay scenarios on the real RaftDiskStorage/RaftNode (small logs and logs crossing the 30000-entry "
                      "file boundary with ClearEntryLog indexes around the member's snapshot index), ack-path scenarios (local writes "
                      "with overwrites, foreign entries with colliding propose ids, partial commits, gated applies, restarts, apply "
                      "failures), truncation-decision sequences (5-14 rounds of the real deleteEntryLog on a real three-file store: "
                      "outages/recoveries of either follower, leadership changes, clock advances of 0..3T+3 units around the tolerate "
                      "time T, Match and snapshot indexes around the file boundaries), append-vs-snapshot probes through etcd RawNode "
                      "on real stores of 60000-60200 entries (untruncated, first file deleted, current file exactly full; follower "
                      "positions on both sides of every file boundary) with SlotGe/Term lookups, read-target selection "
                      "(GetAliveShards on one replica group, generated statuses and shard order), and seven scenarios on a real "
                      "3-node raft group. non-trivial: rotation that succeeds, any codec case, creation with >1 group, replay with a "
                      "truncation or commit > applied, ack scenario with a local write and a commit, a truncation sequence with a "
                      "proposal or a running tolerance period, every send/group case, a selection that reads a shard; "
                      "distinct = different inputs+outputs")
    ck.cov["kind_histogram"] = kinds
    ck.cov["model_variant_codes"] = {str(k): codes.count(k) for k in (0, 1, 2, 3, None)}
    ck.cov["samples"] = [{k: v for k, v in c.items() if k not in ("replayed",)} for c in
                         [next(c for c in cases if c["kind"] == kk) for kk in ("rot", "dw", "replay", "ack", "trunc", "readsel") if any(c["kind"] == kk for c in cases)]]
    if cth is not None:
        cth.join()
        if getattr(ck, "c05_history_accepted", False):
            ck.cov["traces_validated_against_impl"] += 1
    else:
        ck.cov["black_box_cluster"] = "not run (--replay of a single case)"


def cluster(ck):
    """(C2) black-box cluster run - filled in by cluster.py when present."""
    try:
        import importlib.util
        p = os.path.join(os.path.dirname(os.path.abspath(__file__)), "cluster.py")
        if not os.path.exists(p):
            ck.cov["black_box_cluster"] = "not run (cluster driver not built)"
            return
        spec = importlib.util.spec_from_file_location("c05_cluster", p)
        m = importlib.util.module_from_spec(spec)
        spec.loader.exec_module(m)
        m.run(ck)
    except Exception as e:  # the black-box part must never turn into a silent pass or a false alarm of the tie
        import traceback
        traceback.print_exc()
        ck.broken.append("C05 cluster driver raised %r" % (e,))
