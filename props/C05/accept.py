"""Acceptance of a recorded black-box cluster history by the Coq model (Corr.accepts).

history: list of tuples recorded by cluster.py, in order of observation
  ("ack", key, v, t) / ("noack", key, v, status, t)      one write request attempt (one point key -> v)
  ("kill"|"restart"|"pause"|"resume", store, t)
  ("read", label, {key: v}, t)                              a complete answer of `select v from m`
synthesize() builds the observation list and a candidate model execution (witness) for it; Coq checks that the
witness projects onto the observations, that every event is enabled under the reference raft oracle with a majority
available throughout, that acks and reads agree, and that the model acknowledges nothing else.

Witness construction (deterministic): the leader is kept on the master partition's node; every acknowledged write is
proposed at the master, replicated to every available node, committed, learnt and applied (ack at the master's apply);
a node that restarts or resumes is caught up at once; when the master's node is not available another available node
(all of them are complete by construction) is elected and made master (Rotate). An unacknowledged request has no
model event, unless its value shows up in a later read and was never acknowledged: then it is proposed with a
Timeout (no ack) and committed just before that read (an abandoned request may be delivered late)."""


def b_(key, v):
    return "[(%d%%N, %d%%Z)]" % (key, v)


def kvs_(d):
    return "[" + "; ".join("(%d%%N, %d%%Z)" % (k, d[k]) for k in sorted(d)) + "]"


class Synth:
    def __init__(self, n=3):
        self.n = n
        self.up = [True] * n
        self.paused = [False] * n
        self.leader = None
        self.master = 0
        self.peers = list(range(1, n))
        self.loglen = 0
        self.rep = [0] * n       # length of node's log
        self.hc = [0] * n
        self.applied = [0] * n
        self.nextpid = [0] * n
        self.w = []
        self.obs = []
        self.problems = []

    def avail(self, i):
        return self.up[i] and not self.paused[i]

    def ev(self, s):
        self.w.append("WE (%s)" % s)

    def catch_up(self, i):
        if self.leader is None or not self.avail(self.leader) or not self.avail(i):
            return
        if i != self.leader and self.rep[i] < self.loglen:
            self.ev("RReplicate %d %d" % (i, self.loglen))
            self.rep[i] = self.loglen
        if self.hc[i] < self.loglen and self.rep[i] >= self.loglen:
            self.ev("RLearn %d %d" % (i, self.loglen))
            self.hc[i] = self.loglen
        while self.applied[i] < self.hc[i]:
            self.ev("Apply %d" % i)
            self.applied[i] += 1

    def ensure_leader(self):
        if self.leader is not None and self.avail(self.leader) and self.leader == self.master:
            return True
        cands = [i for i in range(self.n) if self.avail(i) and self.rep[i] >= self.loglen]
        if len([i for i in range(self.n) if self.avail(i)]) * 2 <= self.n or not cands:
            self.problems.append("no electable node")
            return False
        pick = self.master if self.master in cands else cands[0]
        self.ev("RElect %d" % pick)
        self.leader = pick
        if pick != self.master:
            self.ev("Rotate %d" % pick)
            self.peers = [self.master] + [p for p in self.peers if p != pick]
            self.master = pick
        for i in range(self.n):
            self.catch_up(i)
        return True

    def commit_write(self, key, v, ack):
        if not self.ensure_leader():
            return
        m = self.master
        self.ev("Propose %d %s" % (m, b_(key, v)))
        self.nextpid[m] += 1
        if not ack:
            self.ev("Timeout %d %d%%N" % (m, self.nextpid[m]))
        self.loglen += 1
        self.rep[m] = self.loglen
        for i in range(self.n):
            if i != m and self.avail(i):
                self.ev("RReplicate %d %d" % (i, self.loglen))
                self.rep[i] = self.loglen
        self.ev("RCommit %d" % self.loglen)
        self.catch_up(m)
        if ack:
            self.w.append("WAck %s" % b_(key, v))
        for i in range(self.n):
            if i != m:
                self.catch_up(i)


def synthesize(history):
    s = Synth()
    acked_vals = {(h[1], h[2]) for h in history if h[0] == "ack"}
    # never-acknowledged values that a read shows: position of the first read showing them
    late = {}
    for idx, h in enumerate(history):
        if h[0] == "read":
            for k, v in h[2].items():
                if (k, v) not in acked_vals and (k, v) not in late:
                    late[(k, v)] = idx
    requested = {(h[1], h[2]) for h in history if h[0] in ("ack", "noack")}
    for idx, h in enumerate(history):
        t = h[0]
        if t == "ack":
            s.obs.append("OAck %s" % b_(h[1], h[2]))
            s.commit_write(h[1], h[2], True)
        elif t == "noack":
            s.obs.append("ONoAck %s" % b_(h[1], h[2]))
            s.w.append("WNoAck %s" % b_(h[1], h[2]))
        elif t in ("kill", "restart", "pause", "resume"):
            i = h[1]
            s.obs.append("O%s %d" % (t.capitalize(), i))
            s.ev("%s %d" % (t.capitalize(), i))
            if t == "kill":
                s.up[i] = False
                s.paused[i] = False
                s.applied[i] = 0
                if s.leader == i:
                    s.leader = None
            elif t == "restart":
                s.up[i] = True
                s.applied[i] = s.hc[i]
                if s.leader is None or not s.avail(s.leader):
                    s.ensure_leader()
                s.catch_up(i)
            elif t == "pause":
                s.paused[i] = True
            else:
                s.paused[i] = False
                if s.leader is None or not s.avail(s.leader):
                    s.ensure_leader()
                s.catch_up(i)
        elif t == "read":
            for (k, v), at in sorted(late.items()):
                if at == idx:
                    if (k, v) not in requested:
                        s.problems.append("read shows %d -> %d which was never written" % (k, v))
                    s.commit_write(k, v, False)
            s.ensure_leader()
            s.obs.append("ORead %s" % kvs_(h[2]))
            s.w.append("WRead %s" % kvs_(h[2]))
    return s


def coq_case(history):
    s = synthesize(history)
    return "CHist [%s] [%s]" % ("; ".join(s.obs), "; ".join(s.w)), s
