"""C05 (C2) black box: ts-meta x1, ts-store x3, ts-sql x1 on loopback (127.0.0.1-3, ports 205xx), database with
REPLICAS 3 under ha-policy = replication; writes with overwrites while stores are killed (SIGKILL), restarted and
paused (SIGSTOP/SIGCONT) - at most one of the three down at any time. DIRECT ORACLE: every acknowledged point is
readable with its latest value (bounded wait for election/catch-up; unacknowledged writes may or may not be visible).

Process hygiene: only PIDs started here are signalled (Popen handles, own session), data and logs under ck.work.
Quick tier: one kill-during-write/restart round on the master's store + one pause round; thorough tier: every store in turn plus generated fault rounds. C05_CLUSTER=0 skips it. If the cluster cannot be brought up the part is reported as
NOT RUN with the reason - never as a pass."""
import os
import signal
import subprocess
import time
import urllib.parse
import urllib.request

META_IP = "127.0.0.1"
IPS = ["127.0.0.1", "127.0.0.2", "127.0.0.3"]
P = dict(meta_port=20588, meta_http=20591, meta_rpc=20592, http=20586, flight=20587, ingest=20540, select=20541,
         g_store=20511, g_meta=20510, g_sql=20512, consume=20592 + 3)

CONF = """[common]
  meta-join = ["{meta_ip}:{meta_rpc}"]
  ha-policy = "replication"
  pprof-enabled = false
[meta]
  bind-address = "{addr}:{meta_port}"
  http-bind-address = "{addr}:{meta_http}"
  rpc-bind-address = "{addr}:{meta_rpc}"
  dir = "{work}/meta{id}"
[http]
  bind-address = "{addr}:{http}"
  flight-address = "{addr}:{flight}"
[data]
  store-ingest-addr = "{addr}:{ingest}"
  store-select-addr = "{addr}:{select}"
  store-data-dir = "{work}/data{id}"
  store-wal-dir = "{work}/data{id}"
  store-meta-dir = "{work}/data{id}/meta"
  enable-mmap-read = false
[data.consume]
  consume-enabled = false
[logging]
  path = "{work}/logs{id}"
[gossip]
  enabled = true
  log-enabled = false
  bind-address = "{addr}"
  store-bind-port = {g_store}
  meta-bind-port = {g_meta}
  sql-bind-port = {g_sql}
  members = ["{meta_ip}:{g_meta}"]
[spec-limit]
  enable-query-when-exceed = true
"""


class Proc:
    def __init__(self, name, binp, conf, work):
        self.name, self.binp, self.conf, self.work = name, binp, conf, work
        self.p = None

    def start(self):
        out = open(os.path.join(self.work, self.name + ".out"), "ab")
        env = dict(os.environ, HOME=self.work)   # default log dir of the repo loggers is $HOME/.openGemini
        self.p = subprocess.Popen([self.binp, "-config", self.conf], stdout=out, stderr=out, cwd=self.work, env=env,
                                  start_new_session=True)

    def sig(self, s):
        if self.p is not None and self.p.poll() is None:
            os.kill(self.p.pid, s)           # only the PID this driver started

    def kill(self):
        self.sig(signal.SIGKILL)
        if self.p is not None:
            try:
                self.p.wait(timeout=10)
            except Exception:
                pass


def http(method, url, data=None, timeout=20):
    req = urllib.request.Request(url, data=data, method=method)
    try:
        with urllib.request.urlopen(req, timeout=timeout) as r:
            return r.status, r.read().decode("utf-8", "replace")
    except urllib.error.HTTPError as e:
        return e.code, e.read().decode("utf-8", "replace")
    except Exception as e:
        return 0, repr(e)


def run(ck):
    if os.environ.get("C05_CLUSTER") == "0":
        ck.cov["black_box_cluster"] = "not run (C05_CLUSTER=0)"
        return
    t0 = time.time()
    bins = {}
    for name in ("ts-meta", "ts-store", "ts-sql"):
        b = ck.go_build_repo("./app/" + name, name, tags="verif", timeout=2400)
        if not b:
            ck.broken = [x for x in ck.broken if "repo build failed" not in x]
            ck.cov["black_box_cluster"] = "NOT RUN: go build ./app/%s failed offline" % name
            return
        bins[name] = b
    ck.log("cluster binaries built in %.0fs" % (time.time() - t0))
    work = os.path.join(ck.work, "cluster")
    os.makedirs(work, exist_ok=True)
    procs = []

    def conf(i, addr):
        path = os.path.join(work, "conf%d.toml" % i)
        open(path, "w").write(CONF.format(addr=addr, id=i, work=work, meta_ip=META_IP, **P))
        return path
    try:
        confs = [conf(i + 1, ip) for i, ip in enumerate(IPS)]
        meta = Proc("meta1", bins["ts-meta"], confs[0], work)
        stores = [Proc("store%d" % (i + 1), bins["ts-store"], confs[i], work) for i in range(3)]
        sql = Proc("sql1", bins["ts-sql"], confs[0], work)
        procs = [meta] + stores + [sql]
        meta.start()
        time.sleep(4)
        for s in stores:
            s.start()
            time.sleep(0.3)
        time.sleep(3)
        sql.start()
        base = "http://%s:%d" % (IPS[0], P["http"])
        up = False
        for _ in range(60):
            st, _b = http("GET", base + "/ping", timeout=3)
            if st in (200, 204):
                up = True
                break
            time.sleep(1)
        if not up:
            ck.cov["black_box_cluster"] = "NOT RUN: ts-sql did not answer /ping within 60s (see NOTES.md); dead: %s" % [
                p.name for p in procs if p.p is None or p.p.poll() is not None]
            return

        def q(stmt, db=None):
            u = base + "/query?epoch=ns&q=" + urllib.parse.quote(stmt) + ("&db=" + db if db else "")
            return http("POST", u, data=b"")
        created = False
        msg = ""
        for _ in range(40):
            st, body = q("CREATE DATABASE db0 REPLICAS 3")
            msg = body[:300]
            if st == 200 and '"error"' not in body:
                created = True
                break
            time.sleep(2)
        if not created:
            ck.cov["black_box_cluster"] = "NOT RUN: CREATE DATABASE db0 REPLICAS 3 was not accepted: %s" % msg
            return
        ck.log("cluster up, database created after %.0fs" % (time.time() - t0))

        strict_info = {}
        strict_bad = []
        sent = {}       # value -> time its first request was sent
        last_bad = []   # the complete list of wrong points of the last failing check
        acked = {}      # timestamp -> last acknowledged value
        maybe = {}      # timestamp -> set of values written but not acknowledged after the last acknowledged one
        history = []
        val = [0]

        def write(ts, budget=40):
            val[0] += 1
            v = val[0]
            line = ("m,t=a v=%di %d" % (v, ts)).encode()
            sent[v] = round(time.time() - t0, 3)
            end = time.time() + budget
            while True:
                st, body = http("POST", base + "/write?db=db0", data=line, timeout=30)
                if st == 204:
                    acked[ts] = v
                    history.append(("ack", ts, v, round(time.time() - t0, 3)))
                    return True
                maybe.setdefault(ts, set()).add(v)
                history.append(("noack", ts, v, st, round(time.time() - t0, 3)))
                if time.time() > end:
                    return False
                time.sleep(1)

        def read_all():
            st, body = q("select v from m", db="db0")
            got = {}
            if st != 200:
                return None, body[:200]
            import json
            try:
                js = json.loads(body)
                for r in js.get("results", []):
                    if "error" in r:
                        return None, r["error"][:200]
                    for s in r.get("series", []) or []:
                        for row in s["values"]:
                            got[int(row[0])] = int(row[1])
            except Exception as e:
                return None, repr(e)
            return got, ""

        def check(label, wait=90):
            """every acknowledged point readable with its latest value, within a bounded wait"""
            end = time.time() + wait
            bad = None
            while True:
                got, err = read_all()
                if got is not None:
                    bad = [(ts, v, got.get(ts)) for ts, v in acked.items()
                           if got.get(ts) != v and got.get(ts) not in maybe.get(ts, set())]
                    if not bad:
                        history.append(("read-ok", label, len(got)))
                        history.append(("read", label, dict(got), round(time.time() - t0, 3)))
                        return True
                else:
                    bad = [("query failed", err)]
                if time.time() > end:
                    history.append(("read-bad", label, bad[:5]))
                    last_bad[:] = bad
                    return False
                time.sleep(2)

        T0 = 1700000000000000000
        ok = True
        fails = []
        # quick tier: one kill/restart round on the store that owns the master partition (the kill comes right after a
        # write was sent), one pause round. thorough tier: every store in turn, then generated rounds.
        steps = [("write", range(0, 8)), ("check", "all up"),
                 ("killwrite", 0, 3), ("write", list(range(2, 8))), ("check", "store1 (master owner) down"),
                 ("restart", 0), ("sleep", 5),
                 ("pause", 1), ("write", list(range(6, 10))), ("resume", 1), ("check", "store2 paused and resumed"),
                 ("check", "all back")]
        if ck.tier == "thorough":
            steps += [("kill", 1), ("write", list(range(5, 15))), ("check", "store2 down"),
                      ("restart", 1), ("sleep", 15), ("write", list(range(10, 18))), ("check", "store2 rejoined"),
                      ("kill", 2), ("write", list(range(0, 6))), ("check", "store3 down after store2 rejoined"),
                      ("restart", 2), ("sleep", 15),
                      ("pause", 0), ("write", list(range(15, 20))), ("resume", 0), ("check", "store1 paused and resumed"),
                      ("kill", 0), ("write", list(range(3, 9))), ("check", "store1 down"), ("restart", 0), ("sleep", 10),
                      ("check", "all back")]
        if ck.tier == "thorough":
            # generated fault sequences (one PRNG from the seed): victim and fault kind per round, at most one store down
            import random
            rnd = random.Random(ck.seed)
            for _round in range(8):
                v = rnd.randrange(3)
                keys = [rnd.randrange(0, 24) for _ in range(rnd.randrange(4, 10))]
                x = rnd.random()
                if x < 0.25:
                    steps += [("pause", v), ("write", keys), ("resume", v), ("check", "round %d: store%d paused" % (_round, v + 1))]
                elif x < 0.6:
                    steps += [("killwrite", v, keys[0]), ("write", keys), ("check", "round %d: store%d killed during a write" % (_round, v + 1)),
                              ("restart", v), ("sleep", rnd.choice([2, 8, 15])), ("write", keys[:3]),
                              ("check", "round %d: store%d rejoined" % (_round, v + 1))]
                else:
                    steps += [("write", keys[:2]), ("kill", v), ("write", keys), ("check", "round %d: store%d down" % (_round, v + 1)),
                              ("restart", v), ("sleep", rnd.choice([2, 8, 15])), ("write", keys[:3]),
                              ("check", "round %d: store%d rejoined" % (_round, v + 1))]
            steps += [("sleep", 10), ("check", "final")]
            # strict-read probe for finding C05-master-elected-before-catch-up: a store is down during acknowledged
            # overwrites, restarts, and right then another store is killed; answers are read at once, without waiting
            steps += [("kill", 1), ("write", list(range(0, 8)) * 3), ("restart", 1), ("sleep", 4), ("kill", 0),
                      ("strict", 25), ("restart", 0), ("sleep", 15), ("check", "after the strict-read probe")]
        for st in steps:
            if st[0] == "write":
                for k in st[1]:
                    if not write(T0 + k * 1000000000):
                        history.append(("write-gave-up", k))
            elif st[0] == "check":
                if not check(st[1]):
                    ok = False
                    fails.append(st[1])
            elif st[0] == "killwrite":
                # SIGKILL right after a write was sent (leader/master killed in the middle of a write)
                import threading
                th = threading.Thread(target=write, args=(T0 + st[2] * 1000000000,))
                th.start()
                time.sleep(0.02)
                stores[st[1]].kill()
                history.append(("kill", st[1], round(time.time() - t0, 3), "during-write"))
                th.join()
            elif st[0] == "kill":
                stores[st[1]].kill()
                history.append(("kill", st[1], round(time.time() - t0, 3)))
            elif st[0] == "restart":
                stores[st[1]].start()
                history.append(("restart", st[1], round(time.time() - t0, 3)))
            elif st[0] == "pause":
                stores[st[1]].sig(signal.SIGSTOP)
                history.append(("pause", st[1], round(time.time() - t0, 3)))
            elif st[0] == "resume":
                time.sleep(3)
                stores[st[1]].sig(signal.SIGCONT)
                history.append(("resume", st[1], round(time.time() - t0, 3)))
            elif st[0] == "sleep":
                time.sleep(st[1])
            elif st[0] == "strict":
                # every complete answer during the next st[1] seconds, compared at once with the acknowledged values
                end = time.time() + st[1]
                answers, stale = 0, []
                while time.time() < end:
                    got, _err = read_all()
                    if got is not None:
                        answers += 1
                        bad = [(ts, v, got.get(ts)) for ts, v in acked.items()
                               if got.get(ts) != v and got.get(ts) not in maybe.get(ts, set())]
                        if bad:
                            stale.append((round(time.time() - t0, 3), len(bad), bad[:3]))
                            strict_bad.append(bad)
                    time.sleep(0.2)
                strict_info.update({"ran": True, "complete_answers": answers, "stale_answers": len(stale), "first_stale": stale[:2],
                                    "last_stale_at": stale[-1][0] if stale else None})
        nack = len([h for h in history if h[0] == "ack"])
        raft_dirs = 0
        for root, dirs, _files in os.walk(work):
            raft_dirs += len([d for d in dirs if d == "__raft_entries__"])
        ck.cov["black_box_cluster"] = {"ran": True, "acked_writes": nack,
                                       "unacked_writes": len([h for h in history if h[0] == "noack"]),
                                       "fault_steps": [h for h in history if h[0] in ("kill", "restart", "pause", "resume")],
                                       "checks": [h for h in history if h[0].startswith("read")], "raft_entry_dirs_on_disk": raft_dirs, "wall_s": round(time.time() - t0)}
        if strict_info:
            ck.cov["black_box_cluster"]["strict_read_probe"] = strict_info
            if strict_info.get("stale_answers"):
                # a stale answer that heals: the transient of finding C05-master-elected-before-catch-up (open, design level)
                opened = getattr(ck, "c05_open", lambda fid: None)
                # signature: every stale answer shows the rejoined store's state at its kill for points overwritten during
                # its outage (same decidable form as the replay-race signature, here for a transient)
                sigs = [replay_race_signature(history, b, sent) for b in strict_bad]
                strict_info["signature"] = all(x is not None and x[0] == 1 for x in sigs)
                if strict_info["signature"] and opened("C05-master-elected-before-catch-up"):
                    ck.known_finding("C05-master-elected-before-catch-up",
                                     "after the store of the master partition died, electRgMaster makes the first online slave peer the master and "
                                     "reads are mapped to it although it rejoined a moment ago and has not caught up: with one store down "
                                     "acknowledged points are missing or stale in the answers until it has caught up")
                else:
                    ck.violation({"kind": "direct-oracle-cluster", "what": "strict read: stale answers with one store down: %s" % strict_info,
                                  "history": [e for e in history if e[0] != "read"]})
        if raft_dirs < 3:
            ck.cov["black_box_cluster"] = "NOT RUN: database was not replicated through raft (%d __raft_entries__ dirs)" % raft_dirs
            return
        if nack == 0:
            ck.cov["black_box_cluster"] = "NOT RUN: the cluster accepted no write (see NOTES.md): %s" % history[:5]
            return
        model_acceptance(ck, history, T0)
        conv = [((e[0], (e[1] - T0) // 1000000000) + tuple(e[2:])) if e[0] in ("ack", "noack") else
                (("read", e[1], {(k - T0) // 1000000000: v for k, v in e[2].items()}, e[3]) if e[0] == "read" else e)
                for e in history if e[0] in ("ack", "noack", "read", "kill", "restart", "pause", "resume")]
        if not ok:
            sig = replay_race_signature(history, last_bad, sent)
            opened = getattr(ck, "c05_open", lambda fid: None)
            if sig and opened("C05-restart-replay-after-newer-entries"):
                ck.known_finding("C05-restart-replay-after-newer-entries",
                                 "the restart replay of a rejoining member is not ordered before the entries raft publishes after the restart: an older "
                                 "write re-applied by the replay overwrites a newer acknowledged write of the same point on that replica for good")
                ck.cov["black_box_cluster"]["replay_race_seen"] = {"store": sig[0], "kill_at": sig[1], "restart_at": sig[2], "failed_checks": fails,
                                                                   "wrong_points": [list(b) for b in last_bad[:8]]}
            else:
                ck.violation({"kind": "direct-oracle-cluster", "what": "acknowledged point not readable with its latest value at: %s" % fails,
                              "matched_signature": "C05-restart-replay-after-newer-entries" if sig else None,
                              "history": [e for e in history if e[0] != "read"], "converted_history": conv})
    finally:
        for p in reversed(procs):
            p.sig(signal.SIGCONT)
            p.kill()


def replay_race_signature(history, bad, sent=None):
    """finding C05-restart-replay-after-newer-entries on a cluster history: some store R was killed at tk and restarted at tr
    (before the failing read), and EVERY wrong point reads as R's state at its kill - the last value sent for that point
    before tk (absent if none) - while the acknowledged value was written after tk and no later than 60 s after tr.
    Returns (store, tk, tr) or None."""
    if not bad or any(b[0] == "query failed" for b in bad):
        return None
    writes = {}      # ts -> [(time, value, acked?)]
    for e in history:
        if e[0] == "ack":
            writes.setdefault(e[1], []).append((e[3], e[2], True))
        elif e[0] == "noack":
            writes.setdefault(e[1], []).append((e[4], e[2], False))
    kills = [(e[1], e[2]) for e in history if e[0] == "kill"]
    restarts = [(e[1], e[2]) for e in history if e[0] == "restart"]
    for store, tk in kills:
        trs = [t for s2, t in restarts if s2 == store and t > tk]
        if not trs:
            continue
        tr = min(trs)
        okall = True
        for ts, v, got in bad:
            ws = writes.get(ts, [])
            acked_before = [val for (t, val, a) in ws if t < tk and a]
            base = max(acked_before) if acked_before else None
            # R's state at its kill: the last value acknowledged before tk, or a later one whose request was sent before tk
            # (a write in flight at the kill)
            states = {base} | {val for (_t, val, _a) in ws if (sent or {}).get(val, 1e18) < tk and (base is None or val > base)}
            tv = [t for (t, val, a) in ws if val == v and a]
            if not (got in states and got != v and tv and tk < tv[0] <= tr + 60):
                okall = False
                break
        if okall:
            return (store, tk, tr)
    return None


def model_acceptance(ck, history, T0):
    """feed the recorded history to the Coq model: Corr.accepts obs witness must be true"""
    import importlib.util
    import re
    p = os.path.join(os.path.dirname(os.path.abspath(__file__)), "accept.py")
    spec = importlib.util.spec_from_file_location("c05_accept", p)
    acc = importlib.util.module_from_spec(spec)
    spec.loader.exec_module(acc)
    # keys as small numbers (seconds offset of the point's timestamp)
    h = []
    for e in history:
        if e[0] in ("ack", "noack"):
            h.append((e[0], (e[1] - T0) // 1000000000, e[2]) + tuple(e[3:]))
        elif e[0] == "read":
            h.append(("read", e[1], {(k - T0) // 1000000000: v for k, v in e[2].items()}, e[3]))
        elif e[0] in ("kill", "restart", "pause", "resume"):
            h.append(e)
    return accept_converted(ck, h)


def accept_converted(ck, h):
    import importlib.util
    import re
    p = os.path.join(os.path.dirname(os.path.abspath(__file__)), "accept.py")
    spec = importlib.util.spec_from_file_location("c05_accept", p)
    acc = importlib.util.module_from_spec(spec)
    spec.loader.exec_module(acc)
    h = [tuple(e) if not isinstance(e, tuple) else e for e in h]
    h = [(e[0], e[1], {int(k): v for k, v in e[2].items()}, e[3]) if e[0] == "read" else e for e in h]
    case, syn = acc.coq_case(h)
    txt = ("From Coq Require Import List Arith NArith ZArith Bool. From OG Require Import C05.Model C05.Corr.\n"
           "Import ListNotations.\nDefinition c : case := %s.\n"
           "Definition R := Eval vm_compute in match c with CHist obs w => (accepts obs w, reject_at (init (cfg_repaired 3 30000)) w 0, "
           "list_eqb oev_eqb (project w) obs) | _ => (false, None, false) end.\nPrint R.\n") % case
    rc, out = ck.coq_eval("cluster_history", txt, timeout=900)
    m = re.search(r"R\s*=\s*\((true|false),\s*(None|Some \d+),\s*(true|false)\)", out)
    info = {"observations": len(syn.obs), "witness_steps": len(syn.w), "synthesizer_problems": syn.problems}
    if rc != 0 or not m:
        ck.broken.append("C05 cluster history: model evaluation failed: %s" % out[-400:])
        info["accepted"] = None
    else:
        info["accepted"] = m.group(1) == "true" and not syn.problems
        if not info["accepted"]:
            info["rejected_at_witness_step"] = m.group(2)
            info["projection_ok"] = m.group(3)
            ck.broken.append("C05 cluster history is not accepted by the model (no model execution produces the observed acks and reads)")
            ck.nofail_detail = {"kind": "cluster-history-not-accepted", "history": h, "witness": syn.w, "info": info}
    if isinstance(ck.cov.get("black_box_cluster"), dict):
        ck.cov["black_box_cluster"]["model_acceptance"] = info
    ck.c05_history_accepted = bool(info.get("accepted"))
    return info
