"""C10 - series index is exact. See DESIGN.md section 4 C10 and props/C10/NOTES.md."""
import glob
import itertools
import json
import os
import re

import vlib
from vlib import coq_n, coq_list, coq_bool

PID = "C10"
F_ANCH = "C10-regex-anchoring"
F_EXPL = "C10-regex-explicit-anchor"
F_ESC = "C10-regex-escaped-bytes"
F_NIL = "C10-negated-matchall-showseries"
F_DUP = "C10-cacheclear-unflushed"
F_LIT = "C10-regex-literal-overwrites-filter-value"
F_STALE = "C10-tagfilter-cache-stale-after-background-flush"
F_IN = "C10-in-predicate-ignored-on-showseries-path"
F_TT = "C10-tag-vs-tag-compares-presence"
F_TXT = "C10-show-series-text-unescaped"
F_BF = "C10-bloomfilter-stale-after-disabled-period"
BASE = (1 << 40) | 1000          # logical clock 1, sequence 1000: the harness' initial generator value


# ---------------------------------------------------------------------------------------------------------
# rendering a harness case as a Coq term (strings interned; 0 = empty string)

class Intern:
    def __init__(self):
        self.s = {"": 0}
        self.p = {}
        self.vals = set()        # strings that occur as tag values (their runes go to the model)

    def str(self, x):
        if x not in self.s:
            self.s[x] = len(self.s)
        return self.s[x]

    def val(self, x):
        self.vals.add(x)
        return self.str(x)

    def patno(self, p):
        if p not in self.p:
            self.p[p] = len(self.p) + 1
        return self.p[p]

    def pat(self, p, tab):       # reading 0 = the index's translation of the pattern (model), 1 = the language (Go regexp)
        return 2 * self.patno(p) + tab


def runes(s):
    return "[" + "; ".join(str(ord(ch)) for ch in s) + "]"


def ast_coq(a):
    """syntax tree of a pattern as dumped by the harness (Go regexp/syntax, Perl flags) -> Coq term of type Regex.re"""
    if a is None:
        return "(RClass [])"
    op = a["op"]
    sub = [ast_coq(x) for x in a.get("sub") or []]
    r = a.get("r") or []
    if op == "empty":
        return "REmpty"
    if op == "lit":
        return "(RLit %s [%s])" % ("true" if a.get("fold") else "false", "; ".join(map(str, r)))
    if op == "class":
        return "(RClass [%s])" % "; ".join("(%d, %d)" % (r[i], r[i + 1]) for i in range(0, len(r) - 1, 2))
    simple = {"anynl": "RAnyNL", "any": "RAny", "bot": "RBeginText", "eot": "REndText", "bol": "RBeginLine", "eol": "REndLine",
              "wb": "RWordB", "nwb": "RNoWordB", "nomatch": "(RClass [])"}
    if op in simple:
        return simple[op]
    one = {"cap": "RCapture", "star": "RStar", "plus": "RPlus", "quest": "RQuest"}
    if op in one:
        return "(%s %s)" % (one[op], sub[0])
    if op == "repeat":
        mx = a.get("max", 0)
        return "(RRepeat %d%%nat %s %s)" % (a.get("min", 0), "None" if mx < 0 else "(Some %d%%nat)" % mx, sub[0])
    if op == "concat":
        return "(RConcat [%s])" % "; ".join(sub)
    if op == "alt":
        return "(RAlt [%s])" % "; ".join(sub)
    raise ValueError("unknown regexp operator %r" % op)


def expr_coq(x, it, choose):
    """choose(atom) -> 0/1 table for a regex atom occurrence"""
    t = x["t"]
    if t == "and":
        return "(And %s %s)" % (expr_coq(x["l"], it, choose), expr_coq(x["r"], it, choose))
    if t == "or":
        return "(Or %s %s)" % (expr_coq(x["l"], it, choose), expr_coq(x["r"], it, choose))
    if t == "paren":
        return "(Paren %s)" % expr_coq(x["l"], it, choose)
    k = it.str(x["k"])
    o = x["o"]
    v = x.get("v", "")
    if o == "eq":
        return "(Atom %d Eq %d)" % (k, it.str(v))
    if o == "neq":
        return "(Atom %d Neq %d)" % (k, it.str(v))
    if o in ("in", "notin"):
        # k IN (a, b, ..) = (k = a OR k = b OR ..);  k NOT IN (a, b, ..) = (k != a AND k != b AND ..)
        vs = sorted(set(x.get("vs") or []))
        terms = ["(Atom %d %s %d)" % (k, "Eq" if o == "in" else "Neq", it.str(w)) for w in vs]
        acc = terms[-1]
        for t2 in reversed(terms[:-1]):
            acc = "(%s %s %s)" % ("Or" if o == "in" else "And", t2, acc)
        return "(Paren %s)" % acc
    return "(Atom %d %s %d)" % (k, "Re" if o == "re" else "Nre", it.pat(v, choose(x)))


TRUE_EXPR = "(Or (Atom 1 Eq 0) (Atom 1 Neq 0))"        # true of every tag set (key 1 is interned as "host" by the callers)


def has_tagtag(x):
    return x is not None and any(a["o"] in ("teq", "tneq") for a in atoms_of(x, []))


def has_in(x):
    return any(a["o"] in ("in", "notin") for a in atoms_of(x, []))


def expr_coq_in_true(x, it):
    """the predicate with every IN / NOT IN atom read as 'true' (what an evaluator without a case for set literals does)"""
    t = x["t"]
    if t in ("and", "or"):
        return "(%s %s %s)" % ("And" if t == "and" else "Or", expr_coq_in_true(x["l"], it), expr_coq_in_true(x["r"], it))
    if t == "paren":
        return "(Paren %s)" % expr_coq_in_true(x["l"], it)
    if x["o"] in ("in", "notin"):
        return TRUE_EXPR
    return expr_coq(x, it, lambda a: 0)


def atoms_of(x, out):
    if x is None:
        return out
    if x["t"] == "atom":
        out.append(x)
    else:
        atoms_of(x.get("l"), out)
        atoms_of(x.get("r"), out)
    return out


def series_coq(mst, tags, it):
    return "(mkS %d %s)" % (it.str(mst), coq_list(["(%d, %d)" % (it.str(k), it.val(v)) for k, v in tags]))


class CaseView:
    """python-side view of a case used for rendering and for the signatures"""

    def __init__(self, c):
        self.c = c
        self.tab = {}           # pattern -> {value: (u, i)}: Go regexp's answer, the index's answer
        self.ast = {}
        self.prune = {}
        self.ptab = {}          # pattern -> {value: what the pruning path matches}
        self.vtext = {}
        for a in c.get("atoms") or []:
            self.tab[a["pat"]] = {r["v"]: (r["u"], r["i"]) for r in a["rows"]}
            self.ptab[a["pat"]] = {r["v"]: r.get("p", r["u"]) for r in a["rows"]}
            self.ast[a["pat"]] = a.get("ast")
            self.prune[a["pat"]] = a.get("prune") or a.get("ast")
            self.vtext[a["pat"]] = a.get("vtext", a["pat"])
        # series written before each op index
        self.before = []
        cur = []
        seen = set()
        self.new_series_ops = set()   # inserts that create a series (they invalidate the tag-filter result cache)
        for oi, o in enumerate(c["ops"]):
            self.before.append(list(cur))
            if o["op"] == "insert":
                key = (o["mst"], tuple(tuple(t) for t in o.get("tags") or []))
                if key not in seen:
                    self.new_series_ops.add(oi)
                    seen.add(key)
                    cur.append((o["mst"], dict(o.get("tags") or [])))

    def relevant_values(self, opi, mst, k):
        vs = set()
        for m, tags in self.before[opi]:
            if m == mst:
                vs.add(tags.get(k, ""))
        return vs

    def discrepant(self, opi, mst, atom):
        """(pattern, value) pairs relevant to this atom occurrence on which the index translation differs from Go regexp"""
        p = atom["v"]
        out = []
        for v in self.relevant_values(opi, mst, atom["k"]):
            u, i = self.tab[p].get(v, (None, None))
            if u is None:
                continue
            if u != i:
                out.append((p, v))
        return out

    def prune_discrepant(self, opi, mst, atom):
        """values relevant to this atom occurrence on which the pruning path's reading of the pattern differs from Go regexp"""
        p = atom["v"]
        return [v for v in self.relevant_values(opi, mst, atom["k"])
                if v in self.tab.get(p, {}) and self.ptab[p][v] != self.tab[p][v][0]]

    def reading_differs(self, opi, mst, atom):
        """the index's reading and the pruning path's reading of this atom differ on a relevant value"""
        p = atom["v"]
        return any(v in self.tab.get(p, {}) and self.ptab[p][v] != self.tab[p][v][1]
                   for v in self.relevant_values(opi, mst, atom["k"]))

    def dup_events(self):
        """op indices b of inserts matching the signature of C10-cacheclear-unflushed: same key inserted at a<b, a cache clear
        at c in (a,b), no flush/reopen anywhere in (a,b)"""
        ev = []
        ops = self.c["ops"]
        for b, ob in enumerate(ops):
            if ob["op"] != "insert":
                continue
            for a in range(b):
                oa = ops[a]
                if oa["op"] == "insert" and oa["mst"] == ob["mst"] and (oa.get("tags") or []) == (ob.get("tags") or []):
                    mid = [ops[j]["op"] for j in range(a + 1, b)]
                    if "clear" in mid and "flush" not in mid and "bgflush" not in mid and "reopen" not in mid:
                        ev.append(b)
                        break
        return ev


def case_coq(c, it_factory=Intern):
    it = it_factory()
    cv = CaseView(c)
    ops = []
    for opi, o in enumerate(c["ops"]):
        k = o["op"]
        if k == "insert":
            ops.append("CInsert %s %d" % (series_coq(o["mst"], o.get("tags") or [], it), o.get("id", 0)))
        elif k == "flush":
            ops.append("CFlush")
        elif k == "bgflush":
            ops.append("CBgFlush")
        elif k == "config":
            ops.append("CNop")        # the configuration the index is created with; the model is configuration-independent
        elif k == "clear":
            ops.append("CClear")
        elif k == "reopen":
            ops.append("CReopen %d" % o.get("bump", 0))
        elif k in ("query", "clist") and has_tagtag(o.get("expr")):
            ops.append("CNop")        # tag = tag comparisons are outside the model: direct oracle only
        elif k == "query":
            x = o.get("expr")
            m = it.str(o["mst"])
            if x is None:
                # no predicate: all series of the measurement = a predicate that is true of every tag set
                e = "(Or (Atom 1 Eq 0) (Atom 1 Neq 0))"
                alts = []
                it.str("host")
            else:
                e = expr_coq(x, it, lambda a: 0)
                occ = [a for a in atoms_of(x, []) if a["o"] in ("re", "nre") and cv.reading_differs(opi, o["mst"], a)]
                alts = []
                if 0 < len(occ) <= 5:
                    for bits in itertools.product((0, 1), repeat=len(occ)):
                        if not any(bits):
                            continue
                        sel = {id(a): b for a, b in zip(occ, bits)}
                        alts.append(expr_coq(x, it, lambda a: sel.get(id(a), 0)))
            if o.get("only2"):
                ops.append("CQuery2 %d %s %s %s" % (m, e, coq_list(alts), coq_list(map(str, o.get("ids2") or []))))
            elif x is not None and has_in(x):
                it.str("host")
                ops.append("CQueryA %d %s %s %s %s %s" % (m, e, coq_list([expr_coq_in_true(x, it)]), coq_list(alts),
                                                          coq_list(map(str, o.get("ids") or [])), coq_list(map(str, o.get("ids2") or []))))
            else:
                ops.append("CQuery %d %s %s %s %s" % (m, e, coq_list(alts), coq_list(map(str, o.get("ids") or [])),
                                                      coq_list(map(str, o.get("ids2") or []))))
        elif k == "clist":
            x = o.get("expr")
            m = it.str(o["mst"])
            if x is None:
                e = "(Or (Atom 1 Eq 0) (Atom 1 Neq 0))"
                it.str("host")
            else:
                e = expr_coq(x, it, lambda a: 0)
            ss = []
            for s2 in o.get("series") or []:
                if s2.get("bad"):
                    ss.append(series_coq("\x00unresolved " + s2["bad"], [], it))
                else:
                    ss.append(series_coq(s2["mst"], s2.get("tags") or [], it))
            vals = ["(%d, %s)" % (it.str(kk), coq_list([str(it.val(v)) for v in vv])) for kk, vv in sorted((o.get("values") or {}).items())]
            vcs = ["(%d, %d)" % (it.str(kk), n2) for kk, n2 in sorted((o.get("vcard") or {}).items())]
            if x is not None and has_in(x):
                it.str("host")
                ops.append("CCondA %d %s %s %d %s %s %s" % (m, e, coq_list([expr_coq_in_true(x, it)]), o.get("card", 0), coq_list(ss),
                                                            coq_list(vals), coq_list(vcs)))
            else:
                ops.append("CCond %d %s %d %s %s %s" % (m, e, o.get("card", 0), coq_list(ss), coq_list(vals), coq_list(vcs)))
        elif k == "list":
            ss = []
            for s in o.get("series") or []:
                if s.get("bad"):
                    ss.append(series_coq("\x00unresolved " + s["bad"], [], it))
                else:
                    ss.append(series_coq(s["mst"], s.get("tags") or [], it))
            keys = [str(it.str(x)) for x in o.get("keys") or []]
            vals = ["(%d, %s)" % (it.str(kk), coq_list([str(it.str(v)) for v in vv])) for kk, vv in sorted((o.get("values") or {}).items())]
            ops.append("CList %d %s %s %s" % (it.str(o["mst"]), coq_list(ss), coq_list(keys), coq_list(vals)))
    # the measured rows (pattern number, value, Go regexp, index), the pattern trees and the runes of the tag values
    rows = []
    for p, rws in cv.tab.items():
        for v, (u, i) in rws.items():
            rows.append("(%d, %d, %s, %s)" % (it.patno(p), it.val(v), coq_bool(u), coq_bool(i)))
    pats = ["(%d, %s, %s)" % (it.patno(p), ast_coq(cv.ast.get(p)), ast_coq(cv.prune.get(p))) for p in it.p]
    strs = ["(%d, %s)" % (it.str(v), runes(v)) for v in sorted(it.vals) if v != ""]
    return "(%d, %s, %s, %s, %s)" % (BASE, coq_list(pats), coq_list(strs), coq_list(rows), coq_list(ops))


def matrix_coq(m):
    ps = []
    for p in m["pats"]:
        rows = ["(%s, %s, %s)" % ("None" if r["v"] == "" else "(Some %s)" % runes(r["v"]), coq_bool(r["u"]), coq_bool(r["i"]))
                for r in p["rows"]]
        ps.append("mkMP %s %s %s %s %s %s %s %s %s %s %s %s" % (
            runes(p["pat"]), runes(p.get("vtext", p["pat"])), ast_coq(p["ast"]), ast_coq(p["final"]), runes(p["prefix"]),
            coq_bool(p["has_sfx"]), ast_coq(p.get("sfx")), coq_list([runes(x) for x in p["orv"]]),
            coq_list([runes(x) for x in p.get("aov") or []]), runes(p.get("alp", "")), coq_bool(p.get("all", False)), coq_list(rows)))
    return ps


# ---------------------------------------------------------------------------------------------------------
# signatures (decidable predicates over failing inputs), as code.
#
# Regex atoms. Theorem C10_current_regex_exact (Props.v): for a pattern of an exact shape (pure literal, assertion-free
# expression matching the empty string, ^literal) and a value without the bytes 0-2 (or the absent tag), today's translation
# (Regex.current_match) equals the language (unanchored matching). So a deviation of the index from Go regexp on a pair
# (pattern, value) belongs to an open regex finding iff
#   (1) the model of today's translation reproduces the index's answer on that pair (and on every other measured pair of the
#       case / matrix: the variant with cr = current has no row mismatch), and
#   (2) the pair lies outside the theorem: the pattern's shape is not exact or the value contains a byte 0-2.
# The three finding ids split (2): value with a byte 0-2 -> escaped-bytes; else pattern with a position assertion ->
# explicit-anchor; else -> anchoring. shape / has_assert are computed by Coq (Corr.pattern_classes) from the syntax tree.

SHAPE_OTHER = 3


def classify_pair(classes, p, v):
    shape, has_assert = classes.get(p, (SHAPE_OTHER, True))
    esc = any(ord(ch) <= 2 for ch in v)
    if shape != SHAPE_OTHER and not esc:
        return None              # inside the theorem: today's translation is exact here, a deviation is unexplained
    if esc:
        return F_ESC
    return F_EXPL if has_assert else F_ANCH


def collision_events(cv):
    """op indices of select-path queries matching branch (a) of the signature of C10-regex-literal-overwrites-filter-value: the query has a regex
    atom (key k, pattern p) whose pattern is a pure literal after the translation's simplification (tf.value is overwritten
    with the literal text L), and an earlier query of the case on the same measurement has a regex atom on k with the same
    negation whose tag-filter cache key text equals L while its pattern is a different one"""
    ev = set()
    ops = cv.c["ops"]
    keytext = cv.keytext
    for b, ob in enumerate(ops):
        if ob["op"] != "query":
            continue
        for a2 in atoms_of(ob.get("expr"), []):
            if a2["o"] not in ("re", "nre"):
                continue
            for a in range(b):
                oa = ops[a]
                if oa["op"] != "query" or oa["mst"] != ob["mst"]:
                    continue
                if any(ops[j]["op"] == "clear" or j in cv.new_series_ops for j in range(a + 1, b)):
                    continue
                for a1 in atoms_of(oa.get("expr"), []):
                    if a1["o"] == a2["o"] and a1["k"] == a2["k"] and a1["v"] != a2["v"] and \
                            keytext.get(a1["v"]) is not None and keytext.get(a1["v"]) == keytext.get(a2["v"]):
                        ev.add(b)
    return ev


def atom_keys(x):
    return {(a["k"], a["o"], a.get("v", ""), tuple(a.get("vs") or [])) for a in atoms_of(x, [])}


def stale_events(cv):
    """op indices of select-path queries matching the signature of C10-tagfilter-cache-stale-after-background-flush: a background
    flush at op a < b made a newly written series visible (an insert that created a series lies between the previous flush /
    bgflush / reopen / clear and a); a filter of the query (same measurement, key, operator, value) was already evaluated by an
    earlier query before a and after the last cache clear / reopen; between a and b there is no cache clear, no reopen and no
    forced flush that had new series to flush (such a flush runs the callback)"""
    ev = set()
    ops = cv.c["ops"]
    for b, ob in enumerate(ops):
        if ob["op"] != "query":
            continue
        keys_b = atom_keys(ob.get("expr"))
        for a in range(b):
            if ops[a]["op"] != "bgflush":
                continue
            # new series pending at a
            j = a - 1
            pending = False
            while j >= 0 and ops[j]["op"] not in ("flush", "bgflush", "reopen", "clear"):
                if j in cv.new_series_ops:
                    pending = True
                j -= 1
            if not pending:
                continue
            # no invalidation between a and b
            inval = False
            fresh = False
            for j in range(a + 1, b):
                o = ops[j]["op"]
                if j in cv.new_series_ops:
                    fresh = True
                if o in ("clear", "reopen") or (o == "flush" and fresh):
                    inval = True
                if o in ("flush", "bgflush"):
                    fresh = False
            if inval:
                continue
            # the filter was cached before a
            j = a - 1
            while j >= 0 and ops[j]["op"] not in ("clear", "reopen"):
                if ops[j]["op"] == "query" and ops[j]["mst"] == ob["mst"] and atom_keys(ops[j].get("expr")) & keys_b:
                    ev.add(b)
                j -= 1
    return ev


def bf_events(cv):
    """op indices of inserts matching the signature of C10-bloomfilter-stale-after-disabled-period: the series key was first
    inserted while the series-key bloom filter was switched off in an index that had been run with the filter on before (a
    stored filter exists), and the insert at hand happens after a reopen that switched the filter on again"""
    ev = set()
    ops = cv.c["ops"]
    cfg_on = False          # configured
    eff_on = False          # in effect for the open index
    stored = False          # a filter has been persisted (the index ran with the filter on)
    first = True
    unfiltered = set()
    seen = set()
    for i, o in enumerate(ops):
        if o["op"] == "config":
            cfg_on = o.get("bf") == "on"
            eff_on = cfg_on
            stored = stored or eff_on
        elif o["op"] == "reopen":
            if o.get("bf"):
                cfg_on = o["bf"] == "on"
            eff_on = cfg_on and stored          # an existing index without a stored filter keeps the filter off
            stored = stored or eff_on
        elif o["op"] == "insert":
            key = (o["mst"], tuple(tuple(t) for t in o.get("tags") or []))
            if key not in seen:
                seen.add(key)
                if not eff_on and stored:
                    unfiltered.add(key)
            elif eff_on and key in unfiltered:
                ev.add(i)
    return ev


def sources_of_failure(cv, f, classes, cr_current):
    """the known deviation sources of today's code that are present in the failing input; None in the set = an unexplained one"""
    c = cv.c
    opi = f["op"]
    src = set()
    dups = [b for b in cv.dup_events() if b <= opi]
    kind = f["kind"]
    if kind in ("id-unstable", "listing-series", "listing-keys", "listing-values", "listing-vcard", "search-not-bruteforce", "cardinality",
                "listing-cond-series", "listing-cond-values") and any(b <= opi for b in cv.bf_ev):
        # a second id for the series exists from the matching insert on: later listings and searches show both ids
        if kind == "id-unstable":
            src.add(F_BF if opi in cv.bf_ev or any(c["ops"][b]["mst"] == c["ops"][opi]["mst"] and
                                                   (c["ops"][b].get("tags") or []) == (c["ops"][opi].get("tags") or []) for b in cv.bf_ev if b <= opi) else None)
            return src
        src.add(F_BF)
        if kind in ("listing-series", "listing-keys", "listing-values", "listing-vcard"):
            return src
    if kind == "id-unstable":
        # the insert that creates the second id, or a later insert of a key that already has two ids
        ops = c["ops"]
        same = [b for b in dups if ops[b]["mst"] == ops[opi]["mst"] and (ops[b].get("tags") or []) == (ops[opi].get("tags") or [])]
        src.add(F_DUP if same else None)
        return src
    if kind == "listing-text":
        # decided by the harness on the written keys alone: a listed key with ',' or '=' inside a name, rendered without escaping
        src.add(F_TXT)
        return src
    if kind in ("listing-series", "listing-keys", "listing-values", "listing-vcard"):
        src.add(F_DUP if dups else None)
        return src
    if kind in ("search-not-bruteforce", "cardinality", "listing-cond-series", "listing-cond-values") and has_tagtag(c["ops"][opi].get("expr")):
        # a comparison of two tags is evaluated as "both tags present" / "first present, second absent" (select path) or as a
        # comparison with the other tag's NAME as a literal (show-series path): any failure of such a predicate is that finding
        src.add(F_TT)
        return src
    if kind in ("search-not-bruteforce", "cardinality", "listing-cond-series", "listing-cond-values"):
        if kind != "search-not-bruteforce":
            f = dict(f, path=1)        # the conditional listings and the cardinality evaluate the predicate on the show-series path
        o = c["ops"][opi]
        x = o.get("expr")
        for a in atoms_of(x, []):
            if a["o"] in ("re", "nre"):
                for p, v in cv.discrepant(opi, o["mst"], a):
                    src.add(classify_pair(classes, p, v) if cr_current else None)
                # branch (b) of the literal-overwrite finding: the pruning path compiles the filter's value text, which today is
                # the literal the pattern was reduced to (model: cache_literal), and that text read as an expression matches a
                # relevant value differently from the pattern
                if f.get("path") == 2 and cv.keytext.get(a["v"], a["v"]) != a["v"] and cv.prune_discrepant(opi, o["mst"], a):
                    src.add(F_LIT)
        if f.get("path") == 1 and opi in getattr(cv, "nil_ops", ()):
            src.add(F_NIL)
        if f.get("path") == 2 and opi in cv.collisions:
            src.add(F_LIT)
        if f.get("path") == 2 and opi in cv.stale:
            src.add(F_STALE)
        # the show-series / drop-series evaluator has no case for a set literal and answers "every series of the measurement" for
        # the IN / NOT IN atom; the model (IN = OR of =) reproduces the implementation when that atom is read as "true"
        if f.get("path") == 1 and any(a["o"] in ("in", "notin") for a in atoms_of(x, [])) and opi in getattr(cv, "in_true_ops", ()):
            src.add(F_IN)
        if dups and getattr(cv, "dup_manifest", False):
            src.add(F_DUP)
        if not src:
            src.add(None)
        return src
    src.add(None)
    return src


WHAT = {
    "C10-bloomfilter-stale-after-disabled-period": "series-key bloom filter switched on, off and on again across restarts: a series first written while it was "
                                                   "off is missing from the stored filter and gets a second id",
    "C10-show-series-text-unescaped": "SHOW SERIES renders a key without escaping: a ',' or '=' inside a measurement / tag key / tag value makes the text read as another key",
    "C10-tag-vs-tag-compares-presence": "a predicate tag1 = tag2 / tag1 != tag2 never compares the two values (select path: presence of the tags; "
                                        "show-series path: tag1 against the NAME of tag2)",
    "C10-in-predicate-ignored-on-showseries-path": "show-series / drop-series path: tag IN (..) / NOT IN (..) is answered with every series of the measurement "
                                                   "(DROP SERIES ... WHERE tag IN ('nosuch') drops them all)",
    "C10-tagfilter-cache-stale-after-background-flush": "select path: after the index table's periodic flush the tag-filter result cache keeps answering "
                                                        "without the newly visible series (the invalidating flush callback is deferred up to 10 s)",
    "C10-regex-anchoring": "regex tag predicate is matched anchored by the index (e.g. /[wd]/, /web|db/ select only whole-value matches)",
    "C10-regex-explicit-anchor": "regex tag predicate with explicit anchors is mistranslated (e.g. /^web$/ matches web-1, /^$/ matches every series)",
    "C10-regex-escaped-bytes": "regex tag predicate is matched against the escaped form of values containing bytes 0x00-0x02",
    "C10-negated-matchall-showseries": "show-series/drop-series path: a negated regex matching the empty string acts as 'no constraint' under AND/OR",
    "C10-cacheclear-unflushed": "cache clear before the index flush: re-inserting the series key creates a second id",
    "C10-regex-literal-overwrites-filter-value": "select path: a regex reduced to a literal overwrites the filter's value with the literal text, so "
                                                 "/a\\.c/ shares the result-cache key of /a.c/ and the pruning path compiles the literal as an expression",
}


# ---------------------------------------------------------------------------------------------------------

def parse_triples(out, name="M"):
    m = re.search(r"\b%s\s*=\s*(.*?)\s*:\s*list" % name, out, re.S)
    if not m:
        return None
    txt = re.sub(r"\s+", "", m.group(1))      # the printer breaks lines anywhere, also right after "("
    tup = r"\((\d+)(?:%\w+)?,(\d+)(?:%\w+)?,(\d+)(?:%\w+)?\)"
    if re.sub(tup, "", txt).strip("[];") != "":
        return None                           # something in the list was not read as a triple: fail closed
    return [(int(a), int(b), int(c)) for a, b, c in re.findall(tup, txt)]


def parse_classes(out):
    m = re.search(r"\bK\s*=\s*(.*?)\s*:\s*list", out, re.S)
    if not m:
        return None
    txt = re.sub(r"\s+", "", m.group(1))
    tup = r"\((\d+)(?:%\w+)?,(true|false)\)"
    if re.sub(tup, "", txt).strip("[];") != "":
        return None
    return [(int(a), b == "true") for a, b in re.findall(tup, txt)]


HDR = ("From Coq Require Import NArith List Bool. From OG Require Import C10.Model C10.Regex C10.Corr.\n"
       "Import ListNotations. Open Scope N_scope.\n")


def load_findings(ck):
    """known_findings.json is the merged list; entries of this property's own fragment that are not merged yet are added
    (read-only, never written at run time)"""
    frag = os.path.join(ck.verif, "props", PID, "findings.json")
    have = {f["id"] for f in ck.findings}
    if os.path.exists(frag):
        for f in json.load(open(frag))["findings"]:
            if f["property"] == PID and f["id"] not in have:
                ck.findings.append(f)


def main(ck):
    load_findings(ck)
    ck.assumptions += [
        "the meaning of a regex atom is Go regexp (regexp.MatchString, unanchored, as InfluxQL row filters use it). The search "
        "theorems hold for every matcher; the model's own matcher (Regex.ends / unanch, over rune lists) is compared with Go regexp "
        "on every (pattern, value) pair of every run",
        "patterns enter the model as the syntax tree Go's regexp/syntax parser produces (Perl flags); tag values are valid UTF-8 and "
        "are modelled as rune lists (byte-level prefix / suffix / contains / equality coincide with the rune-level ones for valid UTF-8)",
        "series keys are what the write path produces: tag keys distinct and non-empty, tags with an empty value dropped "
        "(protoparser/influx/parser.go), so an absent tag and an empty tag value coincide",
        "a search sees index items only after an index flush (mergeset contract); the harness flushes before every search/listing",
        "reopen is a restart: the logical clock moves on (engine_ha.go) and the sequence restarts from a small value",
    ]
    ck.cov["trusted_base"] = ["Coq 8.16.1 kernel + vm_compute (cases evaluation, Examples, refutation witnesses)",
                              "no axioms (Print Assumptions: closed)", "Go regexp as the oracle of regex atoms; Go regexp/syntax parser for the pattern trees",
                              "Go harness cmd/c10 (generator, brute-force oracle), python driver props/C10/run.py (interning, signatures)"]
    ck.coq_audit(["C10"])
    ok = ck.coq_build(["C10/Proofs.vo", "C10/RegexProofs.vo", "C10/RegexSem.vo", "C10/RegexNew.vo", "C10/RegexAlt.vo", "C10/RegexSearch.vo", "C10/FlushClear.vo", "C10/ListingCond.vo", "C10/Prune.vo", "C10/Cache.vo", "C10/Rows.vo", "C10/Corr.vo", "C10/Props.vo", "C10/Refuted.vo"])
    if ok:
        ck.coq_props(["C10/Props.v", "C10/Refuted.v"])
    ck.log("coq built and property theorems re-checked")
    binp = ck.go_build("./cmd/c10", "c10")
    if not binp:
        return
    ck.log("harness built")
    files = sorted(glob.glob(os.path.join(ck.verif, "corpus", "C10", "*.case")))
    n = 120 if ck.tier == "quick" else 2500
    if getattr(ck, "replay", None):
        rp = json.load(open(ck.replay))
        p = os.path.join(ck.work, "replay.case")
        open(p, "w").write(json.dumps({"ops": rp["case"]["ops"]}) + "\n")
        files, n = [p], 0
    rc, out = ck.run([binp, str(n)] + files, timeout=3000)
    cases = [json.loads(l) for l in out.splitlines() if l.startswith('{"i"')]
    matrices = [json.loads(l) for l in out.splitlines() if l.startswith('{"kind":"regex"')]
    ncorp = sum(1 for c in cases if c["kind"] == "corpus")
    nsweep = sum(1 for c in cases if c["kind"] in ("sweep", "pairs", "dense", "stale", "bigrows"))
    if rc != 0 or len(cases) - ncorp - nsweep != n or (n > 0 and nsweep == 0) or (not getattr(ck, "replay", None) and ncorp < len(files)) or len(matrices) != 1:
        ck.broken.append("harness c10 failed rc=%d cases=%d matrices=%d: %s" % (rc, len(cases), len(matrices), out[-800:]))
        return
    matrix = matrices[0]
    ck.log("harness run done: %d cases" % len(cases))
    # ---- second configuration: enable-perl-regrep = true (cases without regex atoms; the matrix is recorded, not judged)
    if not getattr(ck, "replay", None):
        nperl = 25 if ck.tier == "quick" else 300
        rc, outp = ck.run([binp, str(nperl)], timeout=3000, env={"C10_PERL": "1"})
        pcases = [json.loads(l) for l in outp.splitlines() if l.startswith('{"i"')]
        pmx = [json.loads(l) for l in outp.splitlines() if l.startswith('{"kind":"regex"')]
        if rc != 0 or len(pcases) != nperl or len(pmx) != 1 or not all(c.get("perl") for c in pcases):
            ck.broken.append("harness c10 (perl-regrep configuration) failed rc=%d cases=%d: %s" % (rc, len(pcases), outp[-600:]))
            return
        for c in pcases:
            c["i"] = len(cases)
            cases.append(c)
        rows = [(r["u"], r["a"], r["i"]) for p in pmx[0]["pats"] for r in p["rows"]]
        ck.cov["perl_regrep_configuration"] = {
            "cases": nperl, "note": "cases carry no regex atoms (the meaning of a regular expression in this mode is not specified); matrix recorded only",
            "matrix_rows": len(rows), "index_equals_unanchored": sum(1 for u, a, i in rows if i == u),
            "index_equals_anchored": sum(1 for u, a, i in rows if i == a),
            "index_equals_neither": sum(1 for u, a, i in rows if i != a and i != u)}

    ck.log("perl-regrep configuration done")
    # ---- the pattern x value matrix: model of today's translation / of the repaired one against the real index, and the
    # shape classes of every pattern that occurs anywhere in this run
    allpats = {}
    for p in matrix["pats"]:
        allpats[p["pat"]] = p["ast"]
    for c in cases:
        for a in c.get("atoms") or []:
            allpats.setdefault(a["pat"], a.get("ast"))
    patlist = sorted(allpats)
    classes = {}
    keytext = {}
    mx = {}
    if ok:
        # canary: a copy of the first pattern whose first measured row is falsified must be reported (row 1, code 10) by both
        # evaluations; a run in which it is not reported reads nothing from the evaluation
        can = json.loads(json.dumps(matrix["pats"][0]))
        can["rows"][0]["i"] = not can["rows"][0]["i"]
        mps = matrix_coq({"pats": matrix["pats"] + [can]})
        ncan = len(matrix["pats"])
        texts = []
        for tag, cr in (("mxcur", "true"), ("mxrep", "false")):
            texts.append((tag, HDR + "Definition ps : list mpat := [\n%s\n].\nDefinition M := Eval vm_compute in check_matrix %s 0 ps.\nPrint M.\n"
                          % (";\n".join(mps), cr)))
        esc_b = matrix.get("escape") or [-1, -1, -1]
        texts.append(("classes", HDR + "Definition K := Eval vm_compute in pattern_classes %s.\nPrint K.\n"
                      "Definition L := Eval vm_compute in map cache_literal %s.\nPrint L.\n"
                      "Definition CONSTS := Eval vm_compute in check_consts %d %d %d %d.\nPrint CONSTS.\n"
                      % (coq_list([ast_coq(allpats[p]) for p in patlist]), coq_list([ast_coq(allpats[p]) for p in patlist]),
                         max(matrix.get("max_or_values", 0), 0), max(esc_b[0], 0) if esc_b[0] >= 0 else 999, max(esc_b[1], 0), max(esc_b[2], 0))))
        res = ck.coq_eval_many(texts, timeout=1200)
        for (tag, _), (rc2, o) in zip(texts, res):
            if rc2 != 0:
                ck.broken.append("model evaluation failed (%s): %s" % (tag, o[-400:]))
                ok = False
        if ok:
            mx["cur"] = parse_triples(res[0][1])
            mx["rep"] = parse_triples(res[1][1])
            for k in ("cur", "rep"):
                if mx[k] is not None:
                    if (ncan, 1, 10) not in mx[k]:
                        ck.broken.append("C10 matrix evaluation canary (%s): the falsified row was not reported" % k)
                        ok = False
                    mx[k] = [t for t in mx[k] if t[0] != ncan]
            kl = parse_classes(res[2][1])
            lits = parse_optlists(res[2][1])
            if not re.search(r"CONSTS\s*=\s*true\s*:\s*bool", res[2][1]):
                ck.broken.append("constants of the translation in the source (maxOrValues=%s, escaped bytes=%s) differ from the ones the "
                                 "model was proved with, or could not be read" % (matrix.get("max_or_values"), matrix.get("escape")))
            if mx["cur"] is None or mx["rep"] is None or kl is None or len(kl) != len(patlist) or lits is None or len(lits) != len(patlist):
                ck.broken.append("model evaluation output of the regex matrix could not be parsed")
                ok = False
            else:
                classes = dict(zip(patlist, kl))
                # the text under which the tag-filter cache stores a regex filter: the literal for a pattern the translation
                # reduces to a pure literal (tf.value is overwritten), else the pattern's source text
                for p, l in zip(patlist, lits):
                    keytext[p] = "".join(chr(x) for x in l) if l is not None else p
    stale = {F_ANCH, F_EXPL, F_ESC, F_NIL, F_DUP, F_LIT, F_STALE, F_IN, F_TXT, F_BF}
    nviol = 0
    tree_regex_current = False
    if ok:
        cur_rows = [(a, b, c) for a, b, c in mx["cur"] if b > 0]
        rep_rows = [(a, b, c) for a, b, c in mx["rep"] if b > 0]

        def has_repeat(t):
            return t is not None and (t["op"] == "repeat" or any(has_repeat(x) for x in t.get("sub") or []))
        stages_old = [(a, c) for a, b, c in mx["cur"] if b == 0]
        # Go's Simplify (not modelled) expands counted repetitions before anchoredOrValues looks at the tree
        stages_all = [(a, c) for a, b, c in mx["rep"] if b == 0 and not (c == 25 and has_repeat(matrix["pats"][a]["ast"]))]
        # patterns generated from the grammar: stage differences are counted, not reported (the model of the stages is exact for
        # the curated list; for arbitrary trees Go's Simplify may restructure what the stage functions look at). Their ROWS are
        # judged like all others.
        stages_new = [(a, c) for a, c in stages_all if not matrix["pats"][a].get("gen")]
        nrows = sum(len(p["rows"]) for p in matrix["pats"])
        devi = [(a, b + 1) for a, p in enumerate(matrix["pats"]) for b, r in enumerate(p["rows"]) if r["u"] != r["i"]]
        ck.cov["regex_matrix"] = {"patterns": len(matrix["pats"]), "rows": nrows, "rows_index_differs_from_go_regexp": len(devi),
                                  "rows_model_before_f7a71a4_differs": len(cur_rows), "rows_model_today_differs": len(rep_rows),
                                  "stage_mismatches_today": ["%s:%d" % (matrix["pats"][a]["pat"], c) for a, c in stages_new][:20],
                                  "generated_patterns": sum(1 for p in matrix["pats"] if p.get("gen")),
                                  "generated_rows": sum(len(p["rows"]) for p in matrix["pats"] if p.get("gen")),
                                  "generated_stage_disagreements": ["%s:%d" % (matrix["pats"][a]["pat"], c) for a, c in stages_all
                                                                    if matrix["pats"][a].get("gen")][:20]}
        for f in matrix["oracle"]:
            nviol += 1
            ck.violation({"kind": "direct-oracle", "what": f["what"], "failure": f})
        bad9 = [(a, b) for a, b, c in cur_rows + rep_rows if c == 9]
        if bad9:
            a, b = bad9[0]
            ck.broken.append("the model's regexp matcher differs from Go regexp on pattern /%s/ value %r" %
                             (matrix["pats"][a]["pat"], matrix["pats"][a]["rows"][b - 1]["v"]))
        tree_regex_current = not cur_rows
        if not rep_rows and stages_new:
            ck.notes.append("regex translation: behaviour equals the model of today's code on the whole matrix, but intermediate "
                            "stages differ (diagnostic only): %s" % ck.cov["regex_matrix"]["stage_mismatches_today"])
        # every deviation of the index from Go regexp in the matrix is a direct-oracle failure (a real search on probe series). It
        # belongs to a regex finding iff the model of the translation before f7a71a4 reproduces the index on that row and the pair
        # lies outside the characterisation theorem; a finding that is not open does not excuse it.
        cur10 = {(a, b) for a, b, c in cur_rows if c == 10}
        for a, b in devi:
            p, r = matrix["pats"][a], matrix["pats"][a]["rows"][b - 1]
            s = classify_pair(classes, p["pat"], r["v"]) if (a, b) not in cur10 else None
            if s is not None and ck.match_finding(s):
                stale.discard(s)
                ck.known_finding(s, WHAT[s])
            else:
                nviol += 1
                if nviol <= 4:
                    ck.violation(probe_replay(p["pat"], r, ("the index deviates from unanchored matching (and from every model of the translation); "
                                                            "stages of today's translation that differ: %s" % [c for a2, c in stages_new if a2 == a])
                                              if s is None else "finding %s is not open but the index deviates as it describes" % s))
        if not devi and rep_rows and not bad9:
            a, b, c = rep_rows[0]
            ck.broken.append("correspondence C10 regex translation: the index agrees with Go regexp but the model of today's translation does not, "
                             "e.g. /%s/ on %r" % (matrix["pats"][a]["pat"], matrix["pats"][a]["rows"][b - 1]["v"]))

    ck.log("regex matrix evaluated")
    # ---- model evaluation of the cases. The model has three independent current/repaired switches (key lookup sees flushed
    # items only; show-series path treats nil as no constraint; regex translation). All-current and all-repaired are evaluated
    # on every case, the mixed variants only on cases that match neither.
    shard = 40
    rendered = [case_coq(c) for c in cases]

    def evaluate(idxs, var, tag):
        """returns {case index: [(op, code)]} or None on failure"""
        texts = []
        chunks = [idxs[i:i + shard] for i in range(0, len(idxs), shard)]
        for j, ch in enumerate(chunks):
            texts.append(("cases_%s_%d" % (tag, j), HDR + "Definition cases : list ccase := [\n%s\n].\n"
                          "Definition M := Eval vm_compute in mismatches %s cases.\nPrint M.\n"
                          % (";\n".join(rendered[i] for i in ch), " ".join("true" if b else "false" for b in var))))
        res = ck.coq_eval_many(texts, timeout=1200)
        out = {}
        for j, (rc2, o) in enumerate(res):
            lst = parse_triples(o) if rc2 == 0 else None
            if lst is None:
                ck.broken.append("model evaluation failed (%s shard %d): %s" % (tag, j, o[-400:]))
                return None
            for a, b, code in lst:
                out.setdefault(chunks[j][a], []).append((b, code))
        return out

    if os.environ.get("C10_DEBUG"):
        os.makedirs(os.path.join(ck.verif, "work", "c10dev"), exist_ok=True)
        open(os.path.join(ck.verif, "work", "c10dev", "rendered_c10.txt"), "w").write("\n".join(rendered))
    evaluated = False
    mm = {}
    ALLV = [(a, b, c) for a in (True, False) for b in (True, False) for c in (True, False)]
    if ok and cases:
        # canary: a deliberately corrupted copy of the first case (an insert id off by one, a query answer with an extra id)
        # must be reported by the evaluator at exactly those ops - guards the whole evaluation pipeline against silent passes
        can = json.loads(json.dumps(cases[0]))
        marks = []
        for k, o in enumerate(can["ops"]):
            if o["op"] == "insert" and not any(c == 1 for _, c in marks):
                o["id"] = o.get("id", 0) + 1
                marks.append((k, 1))
            elif o["op"] == "query" and not any(c == 5 for _, c in marks):
                o["ids2"] = (o.get("ids2") or []) + [7]
                marks.append((k, 5))
        rendered.append(case_coq(can))
        got = evaluate([len(rendered) - 1], (True, True, True), "canary")
        rendered.pop()
        found = set(got.get(len(cases), [])) if got is not None else set()
        if not marks or not set(marks) <= found:
            ck.broken.append("C10 evaluator canary: corrupted observations %s were not all reported (got %s)" % (marks, sorted(found)))
            ok = False
    if ok:
        allidx = list(range(len(cases)))
        m_cur = evaluate(allidx, (True, True, True), "cur")
        m_rep = evaluate(allidx, (False, False, False), "rep")
        if m_cur is not None and m_rep is not None:
            evaluated = True
            def real(v):
                return [x for x in v if x[1] != 30]         # code 30 is information, not a mismatch
            rest = [i for i in allidx if real(m_cur.get(i, [])) and real(m_rep.get(i, []))]
            others = {}
            for var in ALLV:
                if var in ((True, True, True), (False, False, False)):
                    continue
                r = evaluate(rest, var, "mix%d%d%d" % var) if rest else {}
                if r is None:
                    evaluated = False
                    break
                others[var] = r
            if evaluated:
                for i in allidx:
                    variants = {(True, True, True): m_cur.get(i, []), (False, False, False): m_rep.get(i, [])}
                    if i in rest:
                        for var, r in others.items():
                            variants[var] = r.get(i, [])
                    mm[i] = variants
    ck.log("cases evaluated on the model")
    # ---- verdicts
    nontriv = set()
    hist = {}
    pat_hist = {}
    nq = 0
    validated = 0
    for ci, c in enumerate(cases):
        cv = CaseView(c)
        cv.keytext = keytext
        cv.collisions = collision_events(cv)
        cv.stale = stale_events(cv)
        cv.bf_ev = bf_events(cv)
        for o in c["ops"]:
            hist[o["op"]] = hist.get(o["op"], 0) + 1
            if o["op"] == "query":
                nq += 1
                for a in atoms_of(o.get("expr"), []):
                    pat_hist[a["o"]] = pat_hist.get(a["o"], 0) + 1
        if c["nontrivial"]:
            nontriv.add(json.dumps([(o["op"], o.get("mst"), o.get("tags"), o.get("expr")) for o in c["ops"]], sort_keys=True))
        variants = mm.get(ci, {(True, True, True): [(0, 0)]})
        # the select path's tag-filter cache is outside the model: a code-5 mismatch at an op matching the collision signature is
        # attributed to it when the oracle failed there on path 2 (then the finding explains it)
        def residual(v):
            # code 30 is information (the show-series path equals the predicate with its IN atoms read as true), not a mismatch
            # from an insert matching the bloom-filter signature on, the implementation carries a second id the model does not have
            bf0 = min(cv.bf_ev) if cv.bf_ev else None
            return [(b, code) for b, code in v if code != 30 and not (code == 5 and (b in cv.collisions or b in cv.stale))
                    and not (bf0 is not None and b >= bf0 and b < 1000)]
        matching = [k for k, v in variants.items() if not residual(v)]
        corr_ok = evaluated and bool(matching)
        v_cur, v_rep = variants.get((True, True, True), []), variants.get((False, False, False), [])
        cr_current = bool(matching) and all(k[2] for k in matching)
        # the unflushed-cache-clear defect took effect in this case: only the lookup-as-before-ce36ae7 variants reproduce it
        cv.dup_manifest = bool(matching) and all(k[0] for k in matching) and any(not k[0] for k in variants)
        cv.in_true_ops = set()
        for kk in matching:
            cv.in_true_ops |= {b for b, code in variants[kk] if code == 30}
        # ops at which the nil handling of the show-series path is what makes the model reproduce the implementation
        nil_ops = set()
        for (cl, cn, cr) in matching:
            if cn and (cl, False, cr) in variants:
                nil_ops |= {b for b, code in variants[(cl, False, cr)] if code == 3}
        cv.nil_ops = nil_ops if all(k[1] for k in matching) else set()
        if os.environ.get("C10_DEBUG") and c["oracle"]:
            ck.log("case", ci, "variants", {k: v[:3] for k, v in variants.items()}, "nil_ops", cv.nil_ops)
        if corr_ok:
            validated += 1
        for f in c["oracle"]:
            if f["kind"] == "listing-text":
                # decided on the written keys alone, independent of the model
                if ck.match_finding(F_TXT):
                    stale.discard(F_TXT)
                    ck.known_finding(F_TXT, WHAT[F_TXT])
                    continue
            if not evaluated:
                # the model could not be evaluated at all (already recorded in ck.broken): an oracle failure that lies inside the
                # input part of an open signature is not reported as a new failing input, everything else still is
                src = sources_of_failure(cv, f, classes, True)
                if None not in src and all(ck.match_finding(s) for s in src):
                    continue
            else:
                src = sources_of_failure(cv, f, classes, cr_current) if corr_ok else {None}
            bad = [s for s in src if s is None or not ck.match_finding(s)]
            if bad or not src:
                nviol += 1
                if nviol > 4:        # keep the replay directory readable: the first few failing inputs are enough
                    continue
                ck.violation({"kind": "direct-oracle", "what": f["what"], "failure": f, "case": {"ops": c["ops"]},
                              "atoms": c["atoms"], "model_reproduces": corr_ok, "sources": sorted(str(s) for s in src)})
            else:
                for s in src:
                    stale.discard(s)
                    ck.known_finding(s, WHAT[s])
        if evaluated and not corr_ok and not c["oracle"]:
            b, code = (residual(v_cur) or [(0, 0)])[0]
            ck.broken.append("correspondence C10 model/implementation differs on case %d op %d (code %d)" % (ci, b, code))
            if not getattr(ck, "nofail_detail", None):
                ck.nofail_detail = {"kind": "correspondence", "case_index": ci, "op_index": b, "code": code,
                                    "codes": "1 insert id, 3 ids by show-series path, 5 ids by select path, 6/7/8 listings, 9 model matcher vs Go "
                                             "regexp (row 1000+k), 10 index vs model of the translation (row 1000+k), 11-13 conditional listings / cardinality",
                                    "mismatch_current_model": v_cur[:5], "mismatch_repaired_model": v_rep[:5],
                                    "case": {"ops": c["ops"]}, "atoms": c["atoms"],
                                    "explanation": "no variant of the model reproduces the implementation and the brute-force oracle found no failing input in this case"}
    ck.cov["evaluations"] = len(cases)
    ck.cov["queries"] = nq
    ck.cov["distinct_nontrivial"] = len(nontriv)
    ck.cov["traces_validated_against_impl"] = validated
    ck.cov["rule"] = ("cases = op sequences (insert / flush / cache clear / reopen / predicate query on both search paths / listing) over 1-3 "
                      "measurements from one PRNG; non-trivial = at least one predicate whose brute-force answer is a non-empty proper subset "
                      "of the measurement's series; distinct = different op lists. Plus the deterministic pattern x value matrix of the regex translation")
    ck.cov["op_histogram"] = hist
    ck.cov["atom_histogram"] = pat_hist
    ck.cov["corpus_cases"] = ncorp
    ck.cov["sweep_cases"] = nsweep
    ck.cov["oracle_failures_outside_every_signature"] = nviol
    ck.cov["open_findings_not_reproduced"] = sorted(s for s in stale if ck.match_finding(s))
    ck.cov["samples"] = [{"ops": c["ops"][:6]} for c in cases[ncorp:ncorp + 2]]


def probe_replay(pat, row, what):
    v = row["v"]
    ops = [{"op": "insert", "mst": "cpu_0000", "tags": [["host", v]] if v else []}, {"op": "insert", "mst": "cpu_0000", "tags": [["host", "zz"]]},
           {"op": "flush"}, {"op": "query", "mst": "cpu_0000", "expr": {"t": "atom", "k": "host", "o": "re", "v": pat}}]
    return {"kind": "direct-oracle", "what": "%s: host =~ /%s/ on the value %r: index %s, Go regexp (unanchored) %s" % (what, pat, v, row["i"], row["u"]),
            "case": {"ops": ops}}


def parse_optlists(out):
    """Print of a list (option (list N)) -> python list of (list | None)"""
    m = re.search(r"\bL\s*=\s*(.*?)\s*:\s*list", out, re.S)
    if not m:
        return None
    txt = re.sub(r"\s+", "", m.group(1))
    res = []
    if re.sub(r"None|Some\[[^\]]*\]", "", txt).strip("[];") != "":
        return None
    for tok in re.findall(r"None|Some\[[^\]]*\]", txt):
        if tok == "None":
            res.append(None)
        else:
            res.append([int(x) for x in re.findall(r"\d+", tok[4:].replace("%N", ""))])
    return res
