"""C10 - series index is exact. See DESIGN.md section 4 C10 and props/C10/NOTES.md."""
import glob
import itertools
import json
import os
import re

import vlib
from vlib import coq_n, coq_list

PID = "C10"
F_ANCH = "C10-regex-anchoring"
F_EXPL = "C10-regex-explicit-anchor"
F_ESC = "C10-regex-escaped-bytes"
F_NIL = "C10-negated-matchall-showseries"
F_DUP = "C10-cacheclear-unflushed"
BASE = (1 << 40) | 1000          # logical clock 1, sequence 1000: the harness' initial generator value


# ---------------------------------------------------------------------------------------------------------
# rendering a harness case as a Coq term (strings interned; 0 = empty string)

class Intern:
    def __init__(self):
        self.s = {"": 0}
        self.p = {}

    def str(self, x):
        if x not in self.s:
            self.s[x] = len(self.s)
        return self.s[x]

    def pat(self, p, tab):       # tab: 0 = the index's translation (measured), 1 = Go regexp unanchored
        if p not in self.p:
            self.p[p] = len(self.p) + 1
        return 2 * self.p[p] + tab


def expr_coq(x, it, choose):
    """choose(atom) -> 0/1 table for a regex atom occurrence"""
    t = x["t"]
    if t == "and":
        return "(And %s %s)" % (expr_coq(x["l"], it, choose), expr_coq(x["r"], it, choose))
    if t == "or":
        return "(Or %s %s)" % (expr_coq(x["l"], it, choose), expr_coq(x["r"], it, choose))
    if t == "paren":
        return "(Paren %s)" % expr_coq(x["l"], it, choose)
    k = it.str(x["k"])
    o = x["o"]
    v = x.get("v", "")
    if o == "eq":
        return "(Atom %d Eq %d)" % (k, it.str(v))
    if o == "neq":
        return "(Atom %d Neq %d)" % (k, it.str(v))
    return "(Atom %d %s %d)" % (k, "Re" if o == "re" else "Nre", it.pat(v, choose(x)))


def atoms_of(x, out):
    if x is None:
        return out
    if x["t"] == "atom":
        out.append(x)
    else:
        atoms_of(x.get("l"), out)
        atoms_of(x.get("r"), out)
    return out


def series_coq(mst, tags, it):
    return "(mkS %d %s)" % (it.str(mst), coq_list(["(%d, %d)" % (it.str(k), it.str(v)) for k, v in tags]))


class CaseView:
    """python-side view of a case used for rendering and for the signatures"""

    def __init__(self, c):
        self.c = c
        self.tab = {}           # pattern -> {value: (u, a, i)}
        self.meta = {}          # pattern -> (literal, anchors)
        for a in c.get("atoms") or []:
            self.tab[a["pat"]] = {r["v"]: (r["u"], r["a"], r["i"]) for r in a["rows"]}
            self.meta[a["pat"]] = (a["literal"], a["anchors"])
        # series written before each op index
        self.before = []
        cur = []
        seen = set()
        for o in c["ops"]:
            self.before.append(list(cur))
            if o["op"] == "insert":
                key = (o["mst"], tuple(tuple(t) for t in o.get("tags") or []))
                if key not in seen:
                    seen.add(key)
                    cur.append((o["mst"], dict(o.get("tags") or [])))

    def relevant_values(self, opi, mst, k):
        vs = set()
        for m, tags in self.before[opi]:
            if m == mst:
                vs.add(tags.get(k, ""))
        return vs

    def discrepant(self, opi, mst, atom):
        """(pattern, value) pairs relevant to this atom occurrence on which the index translation differs from Go regexp"""
        p = atom["v"]
        out = []
        for v in self.relevant_values(opi, mst, atom["k"]):
            u, a, i = self.tab[p].get(v, (None, None, None))
            if u is None:
                continue
            if u != i:
                out.append((p, v))
        return out

    def dup_events(self):
        """op indices b of inserts matching the signature of C10-cacheclear-unflushed: same key inserted at a<b, a cache clear
        at c in (a,b), no flush/reopen anywhere in (a,b)"""
        ev = []
        ops = self.c["ops"]
        for b, ob in enumerate(ops):
            if ob["op"] != "insert":
                continue
            for a in range(b):
                oa = ops[a]
                if oa["op"] == "insert" and oa["mst"] == ob["mst"] and (oa.get("tags") or []) == (ob.get("tags") or []):
                    mid = [ops[j]["op"] for j in range(a + 1, b)]
                    if "clear" in mid and "flush" not in mid and "reopen" not in mid:
                        ev.append(b)
                        break
        return ev


def case_coq(c, it_factory=Intern):
    it = it_factory()
    cv = CaseView(c)
    ops = []
    for opi, o in enumerate(c["ops"]):
        k = o["op"]
        if k == "insert":
            ops.append("CInsert %s %d" % (series_coq(o["mst"], o.get("tags") or [], it), o.get("id", 0)))
        elif k == "flush":
            ops.append("CFlush")
        elif k == "clear":
            ops.append("CClear")
        elif k == "reopen":
            ops.append("CReopen %d" % o.get("bump", 0))
        elif k == "query":
            x = o.get("expr")
            m = it.str(o["mst"])
            if x is None:
                # no predicate: all series of the measurement = a predicate that is true of every tag set
                e = "(Or (Atom 1 Eq 0) (Atom 1 Neq 0))"
                alts = []
                it.str("host")
            else:
                e = expr_coq(x, it, lambda a: 0)
                occ = [a for a in atoms_of(x, []) if a["o"] in ("re", "nre") and cv.discrepant(opi, o["mst"], a)]
                alts = []
                if 0 < len(occ) <= 5:
                    for bits in itertools.product((0, 1), repeat=len(occ)):
                        if not any(bits):
                            continue
                        sel = {id(a): b for a, b in zip(occ, bits)}
                        alts.append(expr_coq(x, it, lambda a: sel.get(id(a), 0)))
            ops.append("CQuery %d %s %s %s %s" % (m, e, coq_list(alts), coq_list(map(str, o.get("ids") or [])),
                                                  coq_list(map(str, o.get("ids2") or []))))
        elif k == "list":
            ss = []
            for s in o.get("series") or []:
                if s.get("bad"):
                    ss.append(series_coq("\x00unresolved " + s["bad"], [], it))
                else:
                    ss.append(series_coq(s["mst"], s.get("tags") or [], it))
            keys = [str(it.str(x)) for x in o.get("keys") or []]
            vals = ["(%d, %s)" % (it.str(kk), coq_list([str(it.str(v)) for v in vv])) for kk, vv in sorted((o.get("values") or {}).items())]
            ops.append("CList %d %s %s %s" % (it.str(o["mst"]), coq_list(ss), coq_list(keys), coq_list(vals)))
    # atom table: every (pattern-reading, value) that matches
    tab = []
    for p, rows in cv.tab.items():
        for v, (u, a, i) in rows.items():
            if i:
                tab.append("(%d, %d)" % (it.pat(p, 0), it.str(v)))
            if u:
                tab.append("(%d, %d)" % (it.pat(p, 1), it.str(v)))
    return "(%d, %s, %s)" % (BASE, coq_list(tab), coq_list(ops))


# ---------------------------------------------------------------------------------------------------------
# signatures (decidable predicates over failing inputs), as code

def classify_pair(cv, p, v):
    lit, anch = cv.meta[p]
    u, a, i = cv.tab[p][v]
    if any(ord(ch) <= 2 for ch in v):
        return F_ESC
    if anch:
        return F_EXPL
    if not lit and i == a and a != u:
        return F_ANCH
    return None


def sources_of_failure(cv, f):
    """the known deviation sources of today's code that are present in the failing input; None in the set = an unexplained one"""
    c = cv.c
    opi = f["op"]
    src = set()
    dups = [b for b in cv.dup_events() if b <= opi]
    kind = f["kind"]
    if kind == "id-unstable":
        # the insert that creates the second id, or a later insert of a key that already has two ids
        ops = c["ops"]
        same = [b for b in dups if ops[b]["mst"] == ops[opi]["mst"] and (ops[b].get("tags") or []) == (ops[opi].get("tags") or [])]
        src.add(F_DUP if same else None)
        return src
    if kind in ("listing-series", "listing-keys", "listing-values"):
        src.add(F_DUP if dups else None)
        return src
    if kind == "search-not-bruteforce":
        o = c["ops"][opi]
        x = o.get("expr")
        for a in atoms_of(x, []):
            if a["o"] in ("re", "nre"):
                for p, v in cv.discrepant(opi, o["mst"], a):
                    src.add(classify_pair(cv, p, v))
        if f.get("path") == 1 and opi in getattr(cv, "nil_ops", ()):
            src.add(F_NIL)
        if dups:
            src.add(F_DUP)
        if not src:
            src.add(None)
        return src
    src.add(None)
    return src


# ---------------------------------------------------------------------------------------------------------

def parse_mism(out):
    m = re.search(r"M\s*=\s*(.*?)\s*:\s*list", out, re.S)
    if not m:
        return None
    txt = re.sub(r"\s+", "", m.group(1))      # the printer breaks lines anywhere, also right after "("
    return [(int(a), int(b), int(c)) for a, b, c in re.findall(r"\((\d+)(?:%\w+)?,(\d+)(?:%\w+)?,(\d+)(?:%\w+)?\)", txt)]


def main(ck):
    ck.assumptions += [
        "the meaning of a regex atom is Go regexp (regexp.MatchString, unanchored, as InfluxQL row filters use it); the model never "
        "interprets patterns: the theorems hold for every matcher",
        "series keys are what the write path produces: tag keys distinct and non-empty, tags with an empty value dropped "
        "(protoparser/influx/parser.go), so an absent tag and an empty tag value coincide",
        "a search sees index items only after an index flush (mergeset contract); the harness flushes before every search/listing",
        "reopen is a restart: the logical clock moves on (engine_ha.go) and the sequence restarts from a small value",
    ]
    ck.cov["trusted_base"] = ["Coq 8.16.1 kernel + vm_compute (cases evaluation, Examples, refutation witnesses)",
                              "no axioms (Print Assumptions: closed)", "Go regexp as the oracle of regex atoms",
                              "Go harness cmd/c10 (generator, brute-force oracle), python driver props/C10/run.py (interning, signatures)"]
    ck.coq_audit(["C10"])
    ok = ck.coq_build(["C10/Proofs.vo", "C10/Corr.vo", "C10/Props.vo", "C10/Refuted.vo"])
    if ok:
        ck.coq_props(["C10/Props.v", "C10/Refuted.v"])
    binp = ck.go_build("./cmd/c10", "c10")
    if not binp:
        return
    files = sorted(glob.glob(os.path.join(ck.verif, "corpus", "C10", "*.case")))
    n = 140 if ck.tier == "quick" else 2500
    if getattr(ck, "replay", None):
        rp = json.load(open(ck.replay))
        p = os.path.join(ck.work, "replay.case")
        open(p, "w").write(json.dumps({"ops": rp["case"]["ops"]}) + "\n")
        files, n = [p], 0
    rc, out = ck.run([binp, str(n)] + files, timeout=3000)
    cases = [json.loads(l) for l in out.splitlines() if l.startswith('{"i"')]
    ncorp = sum(1 for c in cases if c["kind"] == "corpus")
    if rc != 0 or len(cases) - ncorp != n or (not getattr(ck, "replay", None) and ncorp < len(files)):
        ck.broken.append("harness c10 failed rc=%d cases=%d: %s" % (rc, len(cases), out[-800:]))
        return
    # ---- model evaluation. The model has two independent current/repaired switches (key lookup sees flushed items only;
    # show-series path treats nil as no constraint). All-current and all-repaired are evaluated on every case, the two
    # mixed variants only on cases that match neither.
    shard = 40
    hdr = ("From Coq Require Import NArith List Bool. From OG Require Import C10.Model C10.Corr.\n"
           "Import ListNotations. Open Scope N_scope.\n")
    rendered = [case_coq(c) for c in cases]

    def evaluate(idxs, cl, cn, tag):
        """returns {case index: [(op, code)]} or None on failure"""
        texts = []
        chunks = [idxs[i:i + shard] for i in range(0, len(idxs), shard)]
        for j, ch in enumerate(chunks):
            texts.append(("cases_%s_%d" % (tag, j), hdr + "Definition cases : list ccase := [\n%s\n].\n"
                          "Definition M := Eval vm_compute in mismatches %s %s cases.\nPrint M.\n"
                          % (";\n".join(rendered[i] for i in ch), "true" if cl else "false", "true" if cn else "false")))
        res = ck.coq_eval_many(texts, timeout=1200)
        out = {}
        for j, (rc2, o) in enumerate(res):
            lst = parse_mism(o) if rc2 == 0 else None
            if lst is None:
                ck.broken.append("model evaluation failed (%s shard %d): %s" % (tag, j, o[-400:]))
                return None
            for a, b, code in lst:
                out.setdefault(chunks[j][a], []).append((b, code))
        return out

    if os.environ.get("C10_DEBUG"):
        open(os.path.join(ck.verif, "work", "c10dev", "rendered_c10.txt"), "w").write("\n".join(rendered))
    evaluated = False
    mm = {}
    if ok and cases:
        # canary: a deliberately corrupted copy of the first case (an insert id off by one, a query answer with an extra id)
        # must be reported by the evaluator at exactly those ops - guards the whole evaluation pipeline against silent passes
        can = json.loads(json.dumps(cases[0]))
        marks = []
        for k, o in enumerate(can["ops"]):
            if o["op"] == "insert" and not any(c == 1 for _, c in marks):
                o["id"] = o.get("id", 0) + 1
                marks.append((k, 1))
            elif o["op"] == "query" and not any(c == 5 for _, c in marks):
                o["ids2"] = (o.get("ids2") or []) + [7]
                marks.append((k, 5))
        rendered.append(case_coq(can))
        got = evaluate([len(rendered) - 1], True, True, "canary")
        rendered.pop()
        found = set(got.get(len(cases), [])) if got is not None else set()
        if not marks or not set(marks) <= found:
            ck.broken.append("C10 evaluator canary: corrupted observations %s were not all reported (got %s)" % (marks, sorted(found)))
            ok = False
    if ok:
        allidx = list(range(len(cases)))
        m_tt = evaluate(allidx, True, True, "cur")
        m_ff = evaluate(allidx, False, False, "rep")
        if m_tt is not None and m_ff is not None:
            evaluated = True
            both = [i for i in allidx if (i in m_tt and i in m_ff) or
                    any(f["kind"] == "search-not-bruteforce" and f.get("path") == 1 for f in cases[i]["oracle"])]
            m_tf = evaluate(both, True, False, "mix1") if both else {}
            m_ft = evaluate(both, False, True, "mix2") if both else {}
            if m_tf is None or m_ft is None:
                evaluated = False
            else:
                for i in allidx:
                    variants = {(True, True): m_tt.get(i, []), (False, False): m_ff.get(i, [])}
                    if i in both:
                        variants[(True, False)] = m_tf.get(i, [])
                        variants[(False, True)] = m_ft.get(i, [])
                    mm[i] = variants
    # ---- verdicts
    nontriv = set()
    hist = {}
    pat_hist = {}
    nq = 0
    validated = 0
    nviol = 0
    stale = {F_ANCH, F_EXPL, F_ESC, F_NIL, F_DUP}
    for ci, c in enumerate(cases):
        cv = CaseView(c)
        for o in c["ops"]:
            hist[o["op"]] = hist.get(o["op"], 0) + 1
            if o["op"] == "query":
                nq += 1
                for a in atoms_of(o.get("expr"), []):
                    pat_hist[a["o"]] = pat_hist.get(a["o"], 0) + 1
        if c["nontrivial"]:
            nontriv.add(json.dumps([(o["op"], o.get("mst"), o.get("tags"), o.get("expr")) for o in c["ops"]], sort_keys=True))
        variants = mm.get(ci, {(True, True): [(0, 0)]})
        matching = [k for k, v in variants.items() if not v]
        corr_ok = evaluated and bool(matching)
        m_cur, m_rep = variants.get((True, True), []), variants.get((False, False), [])
        # ops at which the nil handling of the show-series path is what makes the model reproduce the implementation
        nil_ops = set()
        for (cl, cn) in matching:
            if cn and (cl, False) in variants:
                nil_ops |= {b for b, code in variants[(cl, False)] if code == 3}
        cv.nil_ops = nil_ops if all(cn for _, cn in matching) else set()
        if os.environ.get("C10_DEBUG") and c["oracle"]:
            ck.log("case", ci, "variants", {k: v[:3] for k, v in variants.items()}, "nil_ops", cv.nil_ops)
        if corr_ok:
            validated += 1
        for f in c["oracle"]:
            src = sources_of_failure(cv, f) if corr_ok else {None}
            bad = [s for s in src if s is None or not ck.match_finding(s)]
            if bad or not src:
                nviol += 1
                if nviol > 4:        # keep the replay directory readable: the first few failing inputs are enough
                    continue
                ck.violation({"kind": "direct-oracle", "what": f["what"], "failure": f, "case": {"ops": c["ops"]},
                              "atoms": c["atoms"], "model_reproduces": corr_ok, "sources": sorted(str(s) for s in src)})
            else:
                for s in src:
                    stale.discard(s)
                    ck.known_finding(s, {F_ANCH: "regex tag predicate is matched anchored by the index (e.g. /[wd]/, /web|db/ select only whole-value matches)",
                                         F_EXPL: "regex tag predicate with explicit anchors is mistranslated (e.g. /^web$/ matches web-1, /^$/ matches every series)",
                                         F_ESC: "regex tag predicate is matched against the escaped form of values containing bytes 0x00-0x02",
                                         F_NIL: "show-series/drop-series path: a negated regex matching the empty string acts as 'no constraint' under AND/OR",
                                         F_DUP: "cache clear before the index flush: re-inserting the series key creates a second id"}[s])
        if evaluated and not corr_ok and not c["oracle"]:
            b, code = m_cur[0]
            ck.broken.append("correspondence C10 model/implementation differs on case %d op %d (code %d)" % (ci, b, code))
            if not getattr(ck, "nofail_detail", None):
                ck.nofail_detail = {"kind": "correspondence", "case_index": ci, "op_index": b, "code": code,
                                    "codes": "1 insert id, 3 ids by show-series path, 5 ids by select path, 6/7/8 listings",
                                    "mismatch_current_model": m_cur[:5], "mismatch_repaired_model": m_rep[:5],
                                    "case": {"ops": c["ops"]}, "atoms": c["atoms"],
                                    "explanation": "neither variant of the model reproduces the implementation and the brute-force oracle found no failing input in this case"}
    ck.cov["evaluations"] = len(cases)
    ck.cov["queries"] = nq
    ck.cov["distinct_nontrivial"] = len(nontriv)
    ck.cov["traces_validated_against_impl"] = validated
    ck.cov["rule"] = ("cases = op sequences (insert / flush / cache clear / reopen / predicate query on both search paths / listing) over 1-3 "
                      "measurements from one PRNG; non-trivial = at least one predicate whose brute-force answer is a non-empty proper subset "
                      "of the measurement's series; distinct = different op lists")
    ck.cov["op_histogram"] = hist
    ck.cov["atom_histogram"] = pat_hist
    ck.cov["corpus_cases"] = ncorp
    ck.cov["oracle_failures_outside_every_signature"] = nviol
    ck.cov["open_findings_not_reproduced"] = sorted(s for s in stale if ck.match_finding(s))
    ck.cov["samples"] = [{"ops": c["ops"][:6]} for c in cases[ncorp:ncorp + 2]]
