"""C11 - each point lands in one covering shard; queries skip no shard with matches. See DESIGN.md section C11."""
import json
import os
import re
import vlib
from vlib import coq_z, coq_bool, coq_list

PID = "C11"
F_OR = "C11-or-unconstrained"
F_ACC = "C11-key-accumulation"

V_NAMES = {i: "or=%s,and=%s,reset=%s" % (("repaired" if i & 4 else "current"), ("repaired" if i & 2 else "current"),
                                         ("repaired" if i & 1 else "current")) for i in range(8)}


# ------------------------------------------------------------------------------------------ rendering cases as Coq terms
def cstr(s):
    b = s.encode("utf-8", "surrogateescape") if isinstance(s, str) else bytes(s)
    return "[" + "; ".join(str(x) for x in b) + "]%N"


def cnat_list(l):
    return "[" + "; ".join("%d%%nat" % x for x in l) + "]"


def ctags(ts):
    return coq_list(["(%s, %s)" % (cstr(k), cstr(v)) for k, v in ts])


def cexpr(n):
    op = n["op"]
    if op == "and":
        return "(EAnd %s %s)" % (cexpr(n["l"]), cexpr(n["r"]))
    if op == "or":
        return "(EOr %s %s)" % (cexpr(n["l"]), cexpr(n["r"]))
    if op == "paren":
        return "(EParen %s)" % cexpr(n["l"])
    if op == "eqstr":
        return "(EEq %d%%N %s %s)" % (n["id"], cstr(n["k"]), cstr(n.get("v", "")))
    return "(EOther %d%%N)" % n["id"]


def cgroup(g):
    shards = coq_list(["{| s_id := %d%%N; s_min := %s; s_max := %s |}" % (s["id"], cstr(s["min"]), cstr(s["max"]))
                       for s in (g["shards"] or [])])
    return ("{| g_id := %d%%N; g_start := %s; g_end := %s; g_deleted := %s; g_trunc := %s; g_shards := %s; "
            "g_alive := %s; g_mstidx := %s |}") % (
        g["id"], coq_z(g["start"]), coq_z(g["end"]), coq_bool(g["deleted"]),
        "None" if g["trunc"] is None else "(Some %s)" % coq_z(g["trunc"]), shards, cnat_list(g["alive"] or []),
        "None" if g["mstidx"] is None else "(Some %s)" % cnat_list(g["mstidx"]))


def ccase(c):
    cf = c["cfg"]
    groups = c["groups"] or []
    cfg = ("{| c_mst := %s; c_tagkeys := %s; c_sk := %s; c_typ := %s; c_dur := %s; c_groups := %s |}" % (
        cstr(cf["mstver"]), coq_list([cstr(k) for k in cf["tagkeys"]]), coq_list([cstr(k) for k in (cf["sk"] or [])]),
        "Hash" if cf["typ"] == "hash" else "Range", coq_z(cf["dur"]), coq_list([cgroup(g) for g in groups])))
    pts = []
    for p in c["points"]:
        routed = "None" if p["err"] else "(Some (%d%%N, %d%%N))" % (p["gid"], p["sid"])
        hsh = "None" if not p["hash"] else "(Some (%s, %s%%N))" % (cstr(p["hkey"]), p["hash"])
        pts.append("{| cp_tags := %s; cp_time := %s; cp_leaf := %s; cp_sat := %s; cp_fresh := %s; cp_routed := %s; cp_hash := %s |}" % (
            ctags(p["tags"] or []), coq_z(p["time"]), coq_list([coq_bool(b) for b in (p["leaf"] or [])]), coq_bool(p["sat"]),
            coq_bool(p["fresh"]), routed, hsh))
    ct = "None" if c["condtags"] is None else "(Some %s)" % coq_list([ctags(ts) for ts in c["condtags"]])
    return ("{| cc_cfg := %s; cc_born := %s; cc_cond := %s; cc_points := %s; cc_condtags := %s; cc_tmin := %s; "
            "cc_tmax := %s; cc_qgroups := %s; cc_targets := %s |}") % (
        cfg, coq_list([coq_z(g["born"]) for g in groups]), "(Some %s)" % cexpr(c["cond"]) if c["hascond"] else "None",
        coq_list(pts), ct, coq_z(c["tmin"]), coq_z(c["tmax"]), coq_list(["%d%%N" % x for x in c["qgroups"]]),
        coq_list(["(%d%%N, %s)" % (t["gid"], coq_list(["%d%%N" % s for s in t["sids"]])) for t in c["targets"]]))


# ------------------------------------------------------------------------------------------ finding signatures (code)
def is_tag_eq(n, cfg):
    return n["op"] == "eqstr" and n["k"].lower() != "time" and n["k"] in cfg["tagkeys"]


def cur_nil(n, cfg):
    """getConditionTags of today's code returns nil on this subtree"""
    if n["op"] in ("and", "or"):
        return cur_nil(n["l"], cfg) and cur_nil(n["r"], cfg)
    return not is_tag_eq(n, cfg)


def or_with_one_unconstrained_operand(n, cfg):
    """signature of C11-or-unconstrained: an OR that getConditionTags reaches (not inside parentheses) exactly one of whose
    operands yields no tag constraint"""
    if n["op"] == "or":
        if cur_nil(n["l"], cfg) != cur_nil(n["r"], cfg):
            return True
    if n["op"] in ("and", "or"):
        return or_with_one_unconstrained_operand(n["l"], cfg) or or_with_one_unconstrained_operand(n["r"], cfg)
    return False


def or_directly_under_and(n, under_and=False):
    if n["op"] == "or":
        return under_and or or_directly_under_and(n["l"]) or or_directly_under_and(n["r"])
    if n["op"] == "and":
        return or_directly_under_and(n["l"], True) or or_directly_under_and(n["r"], True)
    return False


def point_matches(p, ts):
    tags = {}
    for k, v in p["tags"] or []:
        tags.setdefault(k, v)
    return all(tags.get(k, "") == v for k, v in ts)


def classify(c, p):
    """returns (finding id | 'latent-and' | None) for a point whose shard the read path failed to consult"""
    cfg = c["cfg"]
    if not c["hascond"] or not cfg["sk"] or c["condtags"] is None:
        return None
    ct = c["condtags"]
    matches = [i for i, ts in enumerate(ct) if point_matches(p, ts)]
    if not matches and or_with_one_unconstrained_operand(c["cond"], cfg):
        return F_OR
    if len(ct) >= 2 and matches and matches[0] >= 1:
        return F_ACC
    if c["label"] == "parenfree" and or_directly_under_and(c["cond"]):
        return "latent-and"
    return None


# ------------------------------------------------------------------------------------------
def run_harness(ck, binp, args, expect=None):
    rc, out = ck.run([binp] + args, timeout=1500)
    cases = []
    for l in out.splitlines():
        if l.startswith('{"n"'):
            try:
                cases.append(json.loads(l))
            except ValueError:
                ck.broken.append("harness c11 printed an unparsable case line")
    if rc != 0 or (expect is not None and len(cases) != expect):
        ck.broken.append("harness c11 failed rc=%d cases=%d: %s" % (rc, len(cases), out[-600:]))
        return None
    return cases


def eval_model(ck, cases, shard=60):
    files = []
    for i in range(0, len(cases), shard):
        chunk = cases[i:i + shard]
        txt = ("From Coq Require Import ZArith NArith List Bool. From OG Require Import C11.Model C11.Corr.\n"
               "Import ListNotations.\nDefinition cases : list ccase := [\n%s\n].\n"
               "Definition M := Eval vm_compute in mismatches cases.\nPrint M.\n") % ";\n".join(ccase(c) for c in chunk)
        files.append(("c11cases%d" % (i // shard), txt))
    res = ck.coq_eval_many(files, timeout=1200)
    out = {}
    okall = True
    for idx, (rc, o) in enumerate(res):
        m = re.search(r"M\s*=\s*(.*?)\n\s*:\s*list", o, re.S)
        if rc != 0 or not m:
            ck.broken.append("model evaluation failed on shard %d: %s" % (idx, o[-500:]))
            okall = False
            continue
        body = re.sub(r"%\w+", "", m.group(1))
        for a, codes, mask in re.findall(r"\((\d+),\s*\[([^\]]*)\],\s*(\d+)\)", body):
            out[idx * shard + int(a)] = ([int(x) for x in re.findall(r"\d+", codes)], int(mask))
    return out, okall


CODE_TXT = {1: "row evaluation (eval_cond)", 2: "write routing (route)", 3: "hashed shard-key bytes / HashID",
            4: "span of the created shard group (span_of)", 5: "groups selected by the time range (query_groups)"}


def main(ck):
    ck.assumptions += [
        "the index list used for hashing (alive shard indexes, or the per-measurement list) is the same when a point is "
        "written and when the query runs; partitions going offline between the two are outside the model",
        "one shard-key definition per measurement (no ALTER SHARDKEY history), one engine type per policy",
        "row tags are sorted by key and carry no empty values (what the line-protocol parser delivers)",
        "rows are evaluated with the repository's influxql.EvalBool per leaf (absent tag = empty string); AND/OR/parentheses "
        "are evaluated by the harness and by the model",
    ]
    ck.cov["trusted_base"] = ["Coq 8.16.1 kernel + vm_compute (cases evaluation, witnesses, Examples)",
                              "no axioms (Print Assumptions: closed)", "Go harness cmd/c11, python driver props/C11/run.py",
                              "add-only hooks coordinator/verif_export_c11.go, lib/util/lifted/influx/meta/verif_export_c11.go"]
    ck.coq_audit(["C11"])
    ok = ck.coq_build(["C11/Proofs.vo", "C11/Corr.vo"])
    if ok:
        ck.coq_props(["C11/Props.v", "C11/Refuted.v"])
    binp = ck.go_build("./cmd/c11", "c11")
    if not binp:
        return
    if getattr(ck, "replay", None):
        cases = run_harness(ck, binp, ["replay", ck.replay])
        if cases is None:
            return
    else:
        n = 400 if ck.tier == "quick" else 6000
        cases = run_harness(ck, binp, [str(n)], expect=n + NWITNESS)
        if cases is None:
            return
        # minimised past failures first
        cdir = os.path.join(ck.verif, "corpus", PID)
        extra = []
        for f in sorted(os.listdir(cdir)) if os.path.isdir(cdir) else []:
            if f.endswith(".case"):
                r = run_harness(ck, binp, ["replay", os.path.join(cdir, f)])
                if r:
                    extra += r
        cases = extra + cases
    mism, evok = eval_model(ck, cases) if ok else ({}, False)

    # ---- variant detection and correspondence
    mask = 255
    first_zero = None
    for i in range(len(cases)):
        codes, m = mism.get(i, ([], 255))
        if mask & m == 0 and first_zero is None and mask != 0:
            first_zero = i
        mask &= m
    code_fail = [(i, mism[i][0]) for i in sorted(mism) if mism[i][0]]
    variants = [V_NAMES[i] for i in range(8) if mask >> i & 1]
    ck.cov["model_variants_matching_impl"] = variants
    ck.notes.append("implementation matches model variants: %s" % (variants or "none"))

    # ---- direct oracle on the implementation
    nontriv = set()
    hist = {"label": {}, "typ": {}, "nsk": {}, "ptnum": {}, "dur": {}, "point_err": {}, "split": 0, "nocond": 0}
    sat_routed = 0
    known_hits = {}
    latent = 0
    viol = 0
    for i, c in enumerate(cases):
        cf = c["cfg"]
        for k, v in (("label", c["label"]), ("typ", cf["typ"]), ("nsk", len(cf["sk"] or [])), ("ptnum", cf["ptnum"]), ("dur", cf["dur"])):
            hist[k][str(v)] = hist[k].get(str(v), 0) + 1
        hist["split"] += 1 if c["split"] else 0
        hist["nocond"] += 0 if c["hascond"] else 1
        pruned = any(len(t["sids"]) < len(g["alive"] or []) for t in c["targets"] for g in c["groups"] if g["id"] == t["gid"])
        ns = 0
        for p in c["points"]:
            hist["point_err"][p["err"].split(":")[0] or "routed"] = hist["point_err"].get(p["err"].split(":")[0] or "routed", 0) + 1
            if not p["err"] and p["sat"] and p["intr"]:
                ns += 1
        sat_routed += ns
        if pruned and ns > 0:
            nontriv.add(json.dumps([cf, c["condtext"], c["label"], [(p["tags"], p["time"]) for p in c["points"]]], sort_keys=True))
        for msg in c["oracle"]:
            if msg.startswith("prune: point "):
                pi = int(msg.split()[2])
                kind = classify(c, c["points"][pi])
                if kind in (F_OR, F_ACC) and ck.match_finding(kind):
                    known_hits[kind] = known_hits.get(kind, 0) + 1
                    if known_hits[kind] == 1:
                        ck.known_finding(kind, "TargetShards skips the shard holding a row that satisfies the query: %s | cond: %s | shard key %s, %s shards" % (
                            msg[7:], c["condtext"], cf["sk"], cf["ptnum"]))
                    continue
                if kind == "latent-and" and mask & 0b00110011:  # the tree's AND is today's (variants with v_and = current match)
                    # AND with alternatives on a paren-free tree: outside the parser's image, not reachable by a query
                    latent += 1
                    continue
            viol += 1
            if viol <= 3:
                ck.violation({"kind": "direct-oracle", "what": msg, "case": c, "case_index": i})
    if latent:
        ck.notes.append("latent (not reachable from the parser): %d rows skipped on paren-free AND-with-alternatives trees" % latent)
    for f in ck.findings:
        if f.get("status") == "open" and f["id"] not in known_hits:
            ck.notes.append("open finding %s did not reproduce in this run (stale entry?)" % f["id"])
    ck.cov["known_finding_hits"] = known_hits

    if ok and evok:
        if code_fail:
            i, codes = code_fail[0]
            ck.broken.append("correspondence C11 model/implementation differs on case %d: %s" % (
                i, ", ".join(CODE_TXT.get(x, str(x)) for x in sorted(set(codes)))))
            ck.nofail_detail = {"kind": "correspondence", "case_index": i, "codes": codes, "case": cases[i]}
        elif mask == 0:
            i = first_zero if first_zero is not None else 0
            ck.broken.append("correspondence C11: no variant of cond_tags/target reproduces getConditionTags/TargetShards "
                             "(first contradiction at case %d)" % i)
            ck.nofail_detail = {"kind": "correspondence", "case_index": i, "case": cases[i],
                                "explanation": "model variants agreeing with this case: %s" % [V_NAMES[k] for k in range(8) if mism.get(i, ([], 255))[1] >> k & 1]}

    ck.cov["evaluations"] = len(cases)
    ck.cov["distinct_nontrivial"] = len(nontriv)
    ck.cov["traces_validated_against_impl"] = len(cases) - len(code_fail) - (0 if mask else 1) if ok and evok else 0
    ck.cov["rule"] = ("case = generated catalogue (partition count, group duration, hash/range, 0-3 shard-key tags, offline partition, "
                      "per-measurement shard list, deleted/truncated group) + condition tree + 5-10 points on/around group "
                      "boundaries; non-trivial = the read path pruned at least one alive shard AND at least one routed point "
                      "satisfies the query; distinct = different (cfg, condition, points)")
    ck.cov["points_routed_and_satisfying"] = sat_routed
    ck.cov["input_histogram"] = hist
    ck.cov["samples"] = [{"cfg": c["cfg"], "cond": c["condtext"], "label": c["label"], "targets": c["targets"],
                          "points": [(p["tags"], p["time"], p["sid"], p["sat"]) for p in c["points"][:3]]} for c in cases[:3]]


NWITNESS = 7
