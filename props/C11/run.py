"""C11 - each point lands in one covering shard; queries skip no shard with matches. See DESIGN.md section C11."""
import json
import os
import re
import vlib
from vlib import coq_z, coq_bool, coq_list

PID = "C11"
F_OR = "C11-or-unconstrained"
F_ACC = "C11-key-accumulation"
F_DROP = "C11-stale-shardkey-after-dropped-row"
F_SKI = "C11-stale-shardkey-across-groups"
F_HINT = "C11-hint-query-ignores-shardkey"
BB_SHARDKEYS = {"cpu": ["host"], "mem": ["region"], "net": ["dc", "host"], "disk": []}   # as created by cmd/c11bb
F_HINT_RANGE = "C11-hint-query-hashes-range-sharded"
F_ALIVE = "C11-alive-set-change-skips-online-shard"
F_HW = "C11-hard-write-read-hashes-online-list"
F_REUSE = "C11-stream-reuse-ignores-destination-key"
F_STALE_ALIVE = "C11-stale-alive-list-after-rejected-row"
NV = 128
FULL = (1 << NV) - 1


def _rc(b):
    return "repaired" if b else "current"


V_NAMES = {i: "hardwriteread=%s,hintrange=%s,batchkey=%s,groupkey=%s,or=%s,and=%s,reset=%s" % (
    _rc(i & 64), _rc(i & 32), _rc(i & 16), _rc(i & 8), _rc(i & 4), _rc(i & 2), _rc(i & 1)) for i in range(NV)}
AND_CURRENT = sum(1 << i for i in range(NV) if not i & 2)


# ------------------------------------------------------------------------------------------ rendering cases as Coq terms
def cstr(s):
    b = s.encode("utf-8", "surrogateescape") if isinstance(s, str) else bytes(s)
    return "[" + "; ".join(str(x) for x in b) + "]%N"


def cnat_list(l):
    return "[" + "; ".join("%d%%nat" % x for x in l) + "]"


def ctags(ts):
    return coq_list(["(%s, %s)" % (cstr(k), cstr(v)) for k, v in ts])


def cexpr(n):
    op = n["op"]
    if op == "and":
        return "(EAnd %s %s)" % (cexpr(n["l"]), cexpr(n["r"]))
    if op == "or":
        return "(EOr %s %s)" % (cexpr(n["l"]), cexpr(n["r"]))
    if op == "paren":
        return "(EParen %s)" % cexpr(n["l"])
    if op == "eqstr":
        return "(EEq %d%%N %s %s)" % (n["id"], cstr(n["k"]), cstr(n.get("v", "")))
    return "(EOther %d%%N)" % n["id"]


def cgroup(g):
    shards = coq_list(["{| s_id := %d%%N; s_min := %s; s_max := %s |}" % (s["id"], cstr(s["min"]), cstr(s["max"]))
                       for s in (g["shards"] or [])])
    return ("{| g_id := %d%%N; g_start := %s; g_end := %s; g_deleted := %s; g_trunc := %s; g_shards := %s; g_alive := %s |}") % (
        g["id"], coq_z(g["start"]), coq_z(g["end"]), coq_bool(g["deleted"]),
        "None" if g["trunc"] is None else "(Some %s)" % coq_z(g["trunc"]), shards, cnat_list(g["alive"] or []))


def chints(c):
    """rendered with doubled percent signs (it is spliced into a format string)"""
    hs = []
    for h in c.get("hints") or []:
        tg = "None" if h["err"] else "(Some %s)" % coq_list(
            ["(%d%%N, %s)" % (t["gid"], coq_list(["%d%%N" % s for s in t["sids"]])) for t in h["targets"]])
        hs.append("(%s, %s)" % (coq_bool(h["hint"] == 2), tg))
    return coq_list(hs).replace("%", "%%")


def ccase(c):
    cf = c["cfg"]
    groups = c["groups"] or []
    msts = []
    for m in cf["msts"]:
        idx = "None" if m["mstidx"] is None else "(Some %s)" % coq_list(
            ["(%d%%N, %s)" % (x["gid"], cnat_list(x["idx"] or [])) for x in m["mstidx"]])
        cfg = ("{| c_mst := %s; c_tagkeys := %s; c_sk := []; c_typ := %s; c_dur := %s; c_groups := gs; c_mstidx := %s |}" % (
            cstr(m["mstver"]), coq_list([cstr(k) for k in m["tagkeys"]]), "Hash" if cf["typ"] == "hash" else "Range",
            coq_z(cf["dur"]), idx))
        vers = coq_list(["(%d%%N, %s)" % (v["from"], coq_list([cstr(k) for k in (v["sk"] or [])])) for v in m["vers"]])
        msts.append("{| m_cfg := %s; m_vers := %s; m_db := %s |}" % (cfg, vers, coq_list([cstr(k) for k in (cf.get("dbsk") or [])])))
    pts = []
    for p in c["points"]:
        routed = "None" if p["err"] else "(Some (%d%%N, %d%%N))" % (p["gid"], p["sid"])
        hsh = "None" if not p["hash"] else "(Some (%s, %s%%N))" % (cstr(p["hkey"]), p["hash"])
        pts.append("{| cp_m := %d%%nat; cp_newbatch := %s; cp_conflict := %s; cp_tags := %s; cp_time := %s; cp_leaf := %s; "
                   "cp_sat := %s; cp_routed := %s; cp_hash := %s |}" % (
                       p["m"], coq_bool(p["newbatch"]), coq_bool(p["conflict"]), ctags(p["tags"] or []), coq_z(p["time"]),
                       coq_list([coq_bool(b) for b in (p["leaf"] or [])]), coq_bool(p["sat"]), routed, hsh))
    ct = "None" if c["condtags"] is None else "(Some %s)" % coq_list([ctags(ts) for ts in c["condtags"]])
    rs = c.get("reshard")
    resh = "(Some (%s, %s))" % (coq_z(rs["split"]), coq_list([cstr(b) for b in rs["bounds"]])) if rs and rs.get("done") else "None"
    return ("(let gs := %s in {| cc_msts := %s; cc_qm := %d%%nat; cc_born := %s; cc_hardwrite := %s; cc_walive := %s; cc_reshard := %s; cc_cond := %s; cc_points := %s; "
            "cc_condtags := %s; cc_tmin := %s; cc_tmax := %s; cc_qgroups := %s; cc_targets := %s; cc_hints := " + chints(c) + " |})") % (
        coq_list([cgroup(g) for g in groups]), coq_list(msts), c["qm"], coq_list([coq_z(2 * g["born"] - 1 if g.get("resh") else 2 * g["born"]) for g in groups]),
        coq_bool(bool(cf.get("hardwrite"))), coq_list([cnat_list(g.get("walive") or []) for g in groups]), resh,
        "(Some %s)" % cexpr(c["cond"]) if c["hascond"] else "None",
        coq_list(pts), ct, coq_z(c["tmin"]), coq_z(c["tmax"]), coq_list(["%d%%N" % x for x in c["qgroups"]]),
        coq_list(["(%d%%N, %s)" % (t["gid"], coq_list(["%d%%N" % s for s in t["sids"]])) for t in c["targets"]]))


# ------------------------------------------------------------------------------------------ finding signatures (code)
def is_tag_eq(n, tagkeys):
    return n["op"] == "eqstr" and n["k"].lower() != "time" and n["k"] in tagkeys


def cur_nil(n, tagkeys):
    """getConditionTags of today's code returns nil on this subtree"""
    if n["op"] in ("and", "or"):
        return cur_nil(n["l"], tagkeys) and cur_nil(n["r"], tagkeys)
    return not is_tag_eq(n, tagkeys)


def or_with_one_unconstrained_operand(n, tagkeys):
    """signature of C11-or-unconstrained: an OR that getConditionTags reaches (not inside parentheses) exactly one of whose
    operands yields no tag constraint"""
    if n["op"] == "or":
        if cur_nil(n["l"], tagkeys) != cur_nil(n["r"], tagkeys):
            return True
    if n["op"] in ("and", "or"):
        return or_with_one_unconstrained_operand(n["l"], tagkeys) or or_with_one_unconstrained_operand(n["r"], tagkeys)
    return False


def or_directly_under_and(n, under_and=False):
    if n["op"] == "or":
        return under_and or or_directly_under_and(n["l"]) or or_directly_under_and(n["r"])
    if n["op"] == "and":
        return or_directly_under_and(n["l"], True) or or_directly_under_and(n["r"], True)
    return False


def point_matches(p, ts):
    tags = {}
    for k, v in p["tags"] or []:
        tags.setdefault(k, v)
    return all(tags.get(k, "") == v for k, v in ts)


def key_at(m, gid, cf=None):
    """the shard-key definition in force: the database's if it has one, else MeasurementInfo.GetShardKey(group id) = the last
    version whose threshold is <= the id"""
    if cf is not None and cf.get("dbsk"):
        return cf["dbsk"]
    for v in reversed(m["vers"]):
        if v["from"] <= gid:
            return v["sk"] or []
    return None


def has_adj_dup(tags):
    return any(tags[i][0] == tags[i + 1][0] for i in range(len(tags) - 1))


def stale_after_dropped_row(c, pi):
    """signature of C11-stale-shardkey-after-dropped-row, by replaying the batch bookkeeping of today's code (preMst /
    sameMst, preSg, the alive-list cache, ctx.shardKeyInfo) up to the failing row: the remembered shard-key definition
    belongs to ANOTHER measurement with a different key, although the previous row resolved this row's measurement (it was
    dropped by the schema check before it was routed) and the shard group did not change"""
    pts = c["points"]
    msts = c["cfg"]["msts"]
    start = pi
    while start > 0 and not pts[start]["newbatch"]:
        start -= 1
    pre_mst = None     # measurement resolved for the previous row (writeHelper.preMst)
    key_owner = None   # measurement whose shard key sits in ctx.shardKeyInfo
    cached = None      # writeHelper.preSg
    asis = False       # ctx.aliveShardIdxes non-empty
    for i in range(start, pi + 1):
        p = pts[i]
        t = p["time"]
        if t < 0:
            continue  # outside the retention window: rejected before the measurement is looked at
        same_mst = pre_mst == p["m"]
        pre_mst = p["m"]
        if p["conflict"] or has_adj_dup(p["tags"] or []):
            continue  # dropped between createMeasurement and updateShardGroupAndShardKey
        hit = cached is not None and int(cached["start"]) <= t < int(cached["end"])
        g = cached if hit else None
        if g is None:
            for x in c["groups"]:  # catalogue order; the last writable group containing t, among those existing by now
                if x["born"] <= i and not x["deleted"] and int(x["start"]) <= t < int(x["end"]) and (x["trunc"] is None or t < int(x["trunc"])):
                    g = x
        if g is None:
            cached = None
            continue
        same_sg = hit and asis
        if i == pi:
            return (same_mst and same_sg and key_owner is not None and key_owner != p["m"]
                    and key_at(msts[key_owner], g["id"], c["cfg"]) != key_at(msts[p["m"]], g["id"], c["cfg"]))
        if not (same_mst and same_sg):
            key_owner = p["m"]
        cached = g
        if not p["err"]:
            asis = True
    return False


def classify(c, pi):
    """returns (finding id | 'latent-and' | None) for a point whose shard the read path failed to consult"""
    p = c["points"][pi]
    m = c["cfg"]["msts"][c["qm"]]
    if stale_after_dropped_row(c, pi):
        return F_DROP
    first_key = key_at(m, c["qgroups"][0], c["cfg"]) if c["qgroups"] else None
    if len(m["vers"]) >= 2 and key_at(m, p["gid"], c["cfg"]) != first_key:
        return F_SKI
    if not c["hascond"] or not first_key or c["condtags"] is None:
        return None
    ct = c["condtags"]
    if c["label"] == "parenfree" and or_directly_under_and(c["cond"]) and todays_and_reading(c, m["tagkeys"]):
        return "latent-and"    # outside the parser's image; explained by today's AND reading before any OR signature is tried
    matches = [i for i, ts in enumerate(ct) if point_matches(p, ts)]
    if not matches and or_with_one_unconstrained_operand(c["cond"], m["tagkeys"]):
        return F_OR
    if len(ct) >= 2 and matches and matches[0] >= 1:
        return F_ACC
    if c["label"] == "parenfree" and or_directly_under_and(c["cond"]) and todays_and_reading(c, m["tagkeys"]):
        return "latent-and"
    return None


def py_cond_tags(n, tagkeys, v_or, v_and):
    """getConditionTags as in Model.cond_tags (None = no constraint)"""
    op = n["op"]
    if op == "eqstr":
        return [[(n["k"], n.get("v", ""))]] if is_tag_eq(n, tagkeys) else None
    if op == "and":
        l, r = py_cond_tags(n["l"], tagkeys, v_or, v_and), py_cond_tags(n["r"], tagkeys, v_or, v_and)
        if l is None:
            return r
        if r is None:
            return l
        if v_and:
            return [a + b for a in l for b in r]
        return [a + [x for b in r for x in b] for a in l]
    if op == "or":
        l, r = py_cond_tags(n["l"], tagkeys, v_or, v_and), py_cond_tags(n["r"], tagkeys, v_or, v_and)
        if l is not None and r is not None:
            return l + r
        if v_or:
            return None
        return r if l is None else l
    return None


def todays_and_reading(c, tagkeys):
    """signature of the latent AND-with-alternatives class: what getConditionTags returned on this (paren-free) tree is exactly
    the reading in which an AND appends every alternative of its right operand to each left set, and the cross product differs"""
    got = c["condtags"]
    if got is None:
        return False
    norm = lambda tss: sorted(sorted((k, v) for k, v in ts) for ts in tss)
    for v_or in (True, False):
        cur, rep = py_cond_tags(c["cond"], tagkeys, v_or, False), py_cond_tags(c["cond"], tagkeys, v_or, True)
        if cur is not None and norm(cur) == norm(got) and (rep is None or norm(rep) != norm(got)):
            return True
    return False


def merged_alternatives(ct):
    """today's AND in getConditionTags: the alternatives of an OR operand end up in ONE tag set (same key, different values)"""
    for ts in ct or []:
        seen = {}
        for k, v in ts:
            if k in seen and seen[k] != v:
                return True
            seen.setdefault(k, v)
    return False


# ------------------------------------------------------------------------------------------
def run_harness(ck, binp, args, expect=None):
    """runs the harness; `expect` = number of generated cases (the harness announces how many hand-written ones precede)"""
    rc, out = ck.run([binp] + args, timeout=1500)
    cases = []
    nwit = 0
    for l in out.splitlines():
        if l.startswith('{"witnesses"'):
            nwit = json.loads(l)["witnesses"]
        elif l.startswith('{"n"'):
            try:
                cases.append(json.loads(l))
            except ValueError:
                ck.broken.append("harness c11 printed an unparsable case line")
    if rc != 0 or (expect is not None and (nwit < 1 or len(cases) != expect + nwit)):
        ck.broken.append("harness c11 failed rc=%d cases=%d: %s" % (rc, len(cases), out[-600:]))
        return None
    return cases


def eval_model(ck, cases, shard=40):
    files = []
    for i in range(0, len(cases), shard):
        chunk = cases[i:i + shard]
        txt = ("From Coq Require Import ZArith NArith List Bool. From OG Require Import C11.Model C11.Corr.\n"
               "Import ListNotations.\nDefinition cases : list ccase := [\n%s\n].\n"
               "Definition M := Eval vm_compute in mismatches cases.\nPrint M.\n") % ";\n".join(ccase(c) for c in chunk)
        files.append(("c11cases%d" % (i // shard), txt))
    # canary: 20 copies of a case whose first routed row is recorded in a shard that does not exist MUST all be reported
    # (20: the printed list is then wrapped over several lines, as real results are)
    NCAN = 20
    canary = None
    for c in cases:
        k = next((k for k, p in enumerate(c["points"]) if not p["err"]), None)
        if k is not None:
            bad = dict(c, points=[dict(p, sid=987654321) if j == k else p for j, p in enumerate(c["points"])])
            canary = ("From Coq Require Import ZArith NArith List Bool. From OG Require Import C11.Model C11.Corr.\n"
                      "Import ListNotations.\nDefinition cases : list ccase := [\n%s\n].\n"
                      "Definition M := Eval vm_compute in mismatches cases.\nPrint M.\n") % ";\n".join([ccase(bad)] * NCAN)
            files.append(("c11canary", canary))
            break
    res = ck.coq_eval_many(files, timeout=1200)

    def tuples(rc, o):
        """{case index in the shard: (codes, mask)} or None when the evaluation failed / a printed tuple could not be read
        (the printer breaks lines anywhere, also right after an opening parenthesis, and adds scope suffixes)"""
        m = re.search(r"M\s*=\s*(.*?)\s*:\s*list", o, re.S)
        if rc != 0 or not m:
            return None
        body = re.sub(r"%\w+", "", re.sub(r"\s+", "", m.group(1)))
        found = re.findall(r"\((\d+),\[([\d;]*)\],(\d+)\)", body)
        if len(found) != body.count("("):
            return None
        return {int(a): ([int(x) for x in codes.split(";") if x], int(mask)) for a, codes, mask in found}

    okall = True
    if canary is not None:
        rc, o = res.pop()
        got = tuples(rc, o)
        if got is None or any(i not in got or not (got[i][0] or got[i][1] == 0) for i in range(NCAN)):
            ck.broken.append("C11 canary: a corrupted case was not reported by the model evaluation (%d copies of a case with a row "
                             "recorded in a shard that does not exist; read back: %s)" % (NCAN, o[-300:] if got is None else sorted(got.items())[:NCAN]))
            okall = False
    elif cases and not getattr(ck, "replay", None):
        ck.broken.append("C11 canary: no case with a routed row to build the corrupted case from")
    out = {}
    for idx, (rc, o) in enumerate(res):
        got = tuples(rc, o)
        if got is None:
            ck.broken.append("model evaluation failed on shard %d: %s" % (idx, o[-500:]))
            okall = False
            continue
        for a, v in got.items():
            out[idx * shard + a] = v
    return out, okall


def acase(c, v):
    """an alt case (other shard-key builders) as a Coq term; v = (v_or, v_and, v_reset) the tree was found to implement"""
    groups = c["groups"] or []
    cfg = ("{| c_mst := %s; c_tagkeys := %s; c_sk := []; c_typ := Hash; c_dur := 3600000000000%%Z; c_groups := %s; c_mstidx := None |}" % (
        cstr(c["mstver"]), coq_list([cstr(k) for k in c["tagkeys"]]), coq_list([cgroup(g) for g in groups])))
    m = "{| m_cfg := %s; m_vers := [(0%%N, %s)]; m_db := %s |}" % (
        cfg, coq_list([cstr(k) for k in (c["sk"] or [])]), coq_list([cstr(k) for k in (c["dbsk"] or [])]))
    b = {"colstore": "BField", "tagop": "BTagOp"}.get(c["kind"]) or "(BDim %s)" % coq_list([cstr(k) for k in (c["dims"] or [])])
    pts = []
    for p in c["points"]:
        row = "{| x_tags := %s; x_fields := [(%s, %s); (%s, [])]; x_cols := %s |}" % (
            ctags(p["tags"] or []), cstr("msg"), cstr(p["msg"]), cstr("usage"),
            coq_list(["(%s, %d%%nat)" % (cstr(k), i) for k, i in (p["cols"] or [])]))
        routed = "None" if p["err"] else "(Some (%d%%N, %d%%N))" % (p["gid"], p["sid"])
        hsh = "None" if p["err"] or not p["hash"] else "(Some (%s, %s%%N))" % (cstr(p["hkey"]), p["hash"])
        pts.append("{| ap_row := %s; ap_time := %s; ap_leaf := %s; ap_sat := %s; ap_routed := %s; ap_hash := %s |}" % (
            row, coq_z(p["time"]), coq_list([coq_bool(x) for x in (p["leaf"] or [])]), coq_bool(p["sat"]), routed, hsh))
    return ("{| ac_m := %s; ac_builder := %s; ac_cond := %s; ac_points := %s; ac_targets := %s; "
            "ac_variant := {| v_or := %s; v_and := %s; v_reset := %s |} |}") % (
        m, b, cexpr(c["cond"]), coq_list(pts),
        coq_list(["(%d%%N, %s)" % (t["gid"], coq_list(["%d%%N" % x for x in t["sids"]])) for t in c["targets"] or []]),
        coq_bool(v[0]), coq_bool(v[1]), coq_bool(v[2]))


ALT_CODE_TXT = {1: "row evaluation", 2: "key builder result / shard the row was mapped to (build_key, route_in_x)",
                3: "bytes hashed / HashID (hash_arg, xxh64)", 5: "shards consulted (target_group with the key in force)"}


def eval_alt_model(ck, cases, v, shard=60):
    """runs the builder models on the alt cases; {case index: codes}, fails closed (unreadable output / silent canary = broken)"""
    head = ("From Coq Require Import ZArith NArith List Bool. From OG Require Import C11.Model C11.Corr.\n"
            "Import ListNotations.\nDefinition cases : list acase := [\n%s\n].\n"
            "Definition M := Eval vm_compute in amismatches cases.\nPrint M.\n")
    files = [("c11alt%d" % (i // shard), head % ";\n".join(acase(c, v) for c in cases[i:i + shard])) for i in range(0, len(cases), shard)]
    NCAN = 20
    canary = False
    for c in cases:
        k = next((k for k, p in enumerate(c["points"]) if not p["err"]), None)
        if k is not None:
            bad = dict(c, points=[dict(p, sid=987654321) if j == k else p for j, p in enumerate(c["points"])])
            files.append(("c11altcanary", head % ";\n".join([acase(bad, v)] * NCAN)))
            canary = True
            break
    res = ck.coq_eval_many(files, timeout=1200)

    def tuples(rc, o):
        m = re.search(r"M\s*=\s*(.*?)\s*:\s*list", o, re.S)
        if rc != 0 or not m:
            return None
        body = re.sub(r"%\w+", "", re.sub(r"\s+", "", m.group(1)))
        found = re.findall(r"\((\d+),\[([\d;]*)\]\)", body)
        if len(found) != body.count("("):
            return None
        return {int(a): [int(x) for x in codes.split(";") if x] for a, codes in found}

    ok = True
    if canary:
        rc, o = res.pop()
        got = tuples(rc, o)
        if got is None or any(2 not in got.get(i, []) for i in range(NCAN)):
            ck.broken.append("C11 alt canary: a corrupted case (row recorded in a shard that does not exist) was not reported by the "
                             "builder model evaluation; read back: %s" % (o[-300:] if got is None else sorted(got.items())[:NCAN]))
            ok = False
    elif cases:
        ck.broken.append("C11 alt canary: no alt case with a routed row to build the corrupted case from")
        ok = False
    out = {}
    for idx, (rc, o) in enumerate(res):
        got = tuples(rc, o)
        if got is None:
            ck.broken.append("builder model evaluation failed on shard %d: %s" % (idx, o[-500:]))
            ok = False
            continue
        for a, codes in got.items():
            out[idx * shard + a] = codes
    return out, ok


def alt_builders(ck, binp, variant=None, coq_ok=False):
    """column-store / column-index / stream shard-key builders: direct oracle + the builder models (by_field, by_tagop,
    by_dim_or_tag, route_in_x) evaluated on the same cases"""
    n = 500 if ck.tier == "quick" else 6000
    rc, out = ck.run([binp, "alt", str(n)], timeout=900)
    cases = []
    for l in out.splitlines():
        if l.startswith('{"alt"'):
            try:
                cases.append(json.loads(l))
            except ValueError:
                pass
    if rc != 0 or len(cases) != n:
        ck.broken.append("harness c11 alt failed rc=%d cases=%d: %s" % (rc, len(cases), out[-400:]))
        return
    kinds, nontriv, viol = {}, 0, 0
    for c in cases:
        kinds[c["kind"]] = kinds.get(c["kind"], 0) + 1
        if len(c["mapped"] or []) < c["nshards"] and any(not p["err"] and p["sat"] for p in c["points"] or []):
            nontriv += 1
        for msg in c["oracle"]:
            viol += 1
            if viol <= 2:
                ck.violation({"kind": "direct-oracle-alt", "what": "%s shard-key builder: %s" % (c["kind"], msg), "case": c})
    ck.cov["alt_builder_cases"] = kinds
    ck.cov["alt_builder_cases_pruned_with_matching_row"] = nontriv
    if coq_ok and variant is not None:
        mism, ok = eval_alt_model(ck, [c for c in cases if c["kind"] != "panic"], variant)   # panicked cases: oracle loop only
        ck.cov["alt_builder_cases_validated_against_model"] = len(cases) - len(mism) if ok else 0
        if ok and mism:
            i = min(mism)
            ck.broken.append("correspondence C11 builders: model and implementation differ on alt case %d (%s): %s" % (
                i, cases[i]["kind"], ", ".join(ALT_CODE_TXT.get(x, str(x)) for x in sorted(set(mism[i])))))
            if not getattr(ck, "nofail_detail", None):
                ck.nofail_detail = {"kind": "correspondence-alt", "case_index": i, "codes": mism[i], "case": cases[i]}
    elif coq_ok:
        ck.notes.append("alt builder cases not evaluated on the model: no model variant matches the tree")


def stream_reuse(ck, binp, known_hits):
    """stream destinations placed with the source row's key bytes (routing step only), direct oracle"""
    n = 200 if ck.tier == "quick" else 3000
    rc, out = ck.run([binp, "reuse", str(n)], timeout=900)
    cases = []
    for l in out.splitlines():
        if l.startswith('{"reuse"'):
            try:
                cases.append(json.loads(l))
            except ValueError:
                pass
    if rc != 0 or len(cases) != n:
        ck.broken.append("harness c11 reuse failed rc=%d cases=%d: %s" % (rc, len(cases), out[-400:]))
        return
    classes, viol, nontriv = {}, 0, 0
    for c in cases:
        dk = c["dbsk"] or c["dstsk"] or []
        sk = c["dbsk"] or c["srcsk"] or []
        cls = "case %d, destination key %s" % (c["case"], "= source key" if dk == sk else ("none" if not dk else "differs"))
        classes[cls] = classes.get(cls, 0) + 1
        if sum(len(t["sids"]) for t in c["targets"] or []) < c["nshards"] and any(not p["err"] and p["sat"] for p in c["points"] or []):
            nontriv += 1
        for msg in c["oracle"]:
            # signature of C11-stream-reuse-ignores-destination-key: case 3, destination key in force non-empty and not the source's
            if msg.startswith("prune: ") and c["case"] == 3 and not c["dbsk"] and dk and dk != sk and ck.match_finding(F_REUSE):
                known_hits[F_REUSE] = known_hits.get(F_REUSE, 0) + 1
                if known_hits[F_REUSE] == 1:
                    ck.known_finding(F_REUSE, "a stream result row is placed with the source's key bytes although the destination has another "
                                     "shard key: %s | source key %s, destination key %s" % (msg[7:], c["srcsk"], c["dstsk"]))
                continue
            viol += 1
            if viol <= 2:
                ck.violation({"kind": "direct-oracle-stream-reuse", "what": msg, "case": c})
    ck.cov["stream_reuse_cases"] = classes
    ck.cov["stream_reuse_cases_pruned_with_matching_row"] = nontriv


def setup():
    """pre-build the server binary used by the black-box part"""
    ck = vlib.Check(PID, "quick")
    try:
        ok = ck.go_build_repo("./app/ts-server", "ts-server") is not None and ck.go_build("./cmd/c11bb", "c11bb") is not None
    finally:
        import shutil
        shutil.rmtree(ck.work, ignore_errors=True)
    return 0 if ok else 1


def blackbox(ck):
    """identical workload and queries against ts-server with ptnum-pernode 1 and N: the answers must be identical"""
    srv = ck.go_build_repo("./app/ts-server", "ts-server")
    bb = ck.go_build("./cmd/c11bb", "c11bb")
    if not srv or not bb:
        return
    conf = os.path.join(ck.repo, "config", "openGemini.singlenode.conf")
    runs = [(4, 20)] if ck.tier == "quick" else [(8, 250), (3, 150)]
    total = diff = refdiff = hint_hits = 0
    with vlib.Lock(os.path.join(ck.verif, "build", "c11-ports.lock")):   # ports 21100-21129 are used by one run at a time
        for k, (ptnum, nq) in enumerate(runs):
            wd = os.path.join(ck.work, "bb%d" % k)
            os.makedirs(wd, exist_ok=True)
            rc, out = ck.run([bb, srv, conf, "21100", wd, str(ptnum), str(nq)], timeout=900, env={"VERIF_SEED": str(ck.seed + k), "C11BB_HINTS": "1"})
            outs = []
            for l in out.splitlines():
                if l.startswith('{"kind"'):
                    try:
                        outs.append(json.loads(l))
                    except ValueError:
                        pass
            done = [o for o in outs if o["kind"] == "info" and (o.get("msg") or "").startswith("done:")]
            errs = [o for o in outs if o["kind"] == "error"]
            if rc != 0 or errs or not done:
                ck.broken.append("black box c11bb failed (ptnum %d): rc=%d %s" % (ptnum, rc, (errs[0]["msg"] if errs else out[-400:])))
                continue
            counts_off = any(o["kind"] == "info" and "acknowledged" in (o.get("msg") or "") for o in outs)
            strict_n = sum(1 for o in outs if o["kind"] == "query" and o.get("strict"))
            ck.cov["blackbox_strict_time_range_queries"] = ck.cov.get("blackbox_strict_time_range_queries", 0) + strict_n
            for o in outs:
                if o["kind"] == "info" and "acknowledged" in (o.get("msg") or ""):
                    ck.notes.append("black box: " + o["msg"])
                if o["kind"] != "query":
                    continue
                total += 1
                if o.get("erra") or o.get("errb"):
                    if bool(o.get("erra")) != bool(o.get("errb")):
                        diff += 1
                        ck.violation({"kind": "black-box", "what": "one server answers, the other fails", "ptnum": ptnum, "query": o})
                    continue
                if o["a"] != o["b"] and re.search(r"/\*\+\s*(full_series|specific_series)\s*\*/", o["q"]) \
                        and BB_SHARDKEYS.get(o.get("mst")) and ptnum > 1 and ck.match_finding(F_HINT):
                    # signature of C11-hint-query-ignores-shardkey: hinted query on a measurement with a shard key
                    hint_hits += 1
                    if hint_hits == 1:
                        ck.known_finding(F_HINT, "ts-server with ptnum-pernode 1 and %d answer differently: %s -> %d vs %d rows; e.g. %s" % (
                            ptnum, o["q"], len(o["a"]), len(o["b"]), (o.get("lines") or [])[:1]))
                    continue
                if o["a"] != o["b"]:
                    diff += 1
                    if diff <= 3:
                        ck.violation({"kind": "black-box", "what": "ts-server with ptnum-pernode 1 and %d give different answers to %s: %d vs %d rows; "
                                      "rows returned by one only: %s" % (ptnum, o["q"], len(o["a"]), len(o["b"]), (o.get("lines") or [])[:4]),
                                      "ptnum": ptnum, "query": o, "seed": ck.seed + k})
                elif o.get("strict") and o["a"] != o["exp"] and not counts_off:
                    # a pure time-range query (bounds on / next to shard-group boundaries): both servers agree with each other
                    # but not with the acknowledged rows - a row sits in a group the time range does not select, or is lost
                    diff += 1
                    if diff <= 3:
                        ck.violation({"kind": "black-box-time", "what": "both servers answer %s with %d rows, the acknowledged rows "
                                      "inside the time range are %d: only in the answer %s, missing %s" % (
                                          o["q"], len(o["a"]), len(o["exp"]), sorted(set(o["a"]) - set(o["exp"]))[:5],
                                          sorted(set(o["exp"]) - set(o["a"]))[:5]), "ptnum": ptnum, "query": o, "seed": ck.seed + k})
                elif o["a"] != o["exp"]:
                    refdiff += 1
                    if refdiff <= 2:
                        ck.notes.append("black box: both servers agree but differ from the brute-force evaluation (not a partition effect; "
                                        "C08/C10 territory): %s -> %d rows, brute force %d" % (o["q"], len(o["a"]), len(o["exp"])))
    ck.cov["blackbox_queries"] = total
    ck.cov["blackbox_answers_differing"] = diff
    ck.cov["blackbox_reference_disagreements"] = refdiff
    ck.cov["blackbox_hint_query_finding_hits"] = hint_hits


CODE_TXT = {1: "row evaluation (eval_cond)", 3: "HashID (XXH64) of the hashed shard-key bytes",
            4: "span of the created shard group (span_of)", 5: "groups selected by the time range (query_groups)",
            6: "span / key ranges of the group created by Data.ReSharding (resharded_span, ranges_of)",
            7: "key ranges of a group created by CreateShardGroup in a range-sharded policy (created_ranges)"}


def main(ck):
    # committed per-property entries that the merged known_findings.json does not carry yet (read-only, never written)
    try:
        frag = json.load(open(os.path.join(ck.verif, "props", PID, "findings.json")))["findings"]
        have = {f["id"] for f in ck.findings}
        ck.findings += [f for f in frag if f.get("property") == PID and f["id"] not in have]
    except (OSError, ValueError, KeyError):
        pass
    ck.assumptions += [
        "pruning theorems: the index list hashed over (alive shard indexes, or the measurement's own shard list) is the same when "
        "a row is written and when the query runs (prune_sound_alive_change states exactly this; what today's code does when the "
        "list changed is the open finding C11-alive-set-change-skips-online-shard); rows whose partition is offline when the "
        "query runs are not expected in the answer",
        "one database-level shard key per database (hashed), one sharding type per retention policy, one engine type per policy",
        "row tags are sorted by key and carry no empty values (what the line-protocol parser delivers); column-store and stream "
        "rows (unsorted tags, key columns that are fields, dimension order) are covered by the direct oracle only",
        "range sharding: split points handed to ReSharding are non-empty and strictly increasing (bounds_sorted); ts-meta takes "
        "them from existing series keys in order",
        "hinted queries (full_series / specific_series) on a measurement without a shard key promise only the rows of the series "
        "whose tag set is the condition's",
        "black box: single-node ts-server built from the working tree, ptnum-pernode 1 vs N, HTTP /write and /query; the "
        "single-partition server is the oracle; pure time-range queries must also equal the acknowledged rows",
        "rows are evaluated with the repository's influxql.EvalBool per leaf (absent tag = empty string); AND/OR/parentheses "
        "are evaluated by the harness and by the model",
    ]
    ck.cov["trusted_base"] = ["Coq 8.16.1 kernel + vm_compute (cases evaluation, witnesses, Examples)",
                              "no axioms (Print Assumptions: closed)", "Go harness cmd/c11, python driver props/C11/run.py",
                              "add-only hooks coordinator/verif_export_c11.go, verif_export_c11b.go, verif_export_c11c.go, "
                              "lib/util/lifted/influx/meta/verif_export_c11.go"]
    ck.coq_audit(["C11"])
    ok = ck.coq_build(["C11/Proofs.vo", "C11/ProofsRange.vo", "C11/ProofsBuilders.vo", "C11/ProofsSpan.vo", "C11/Corr.vo"])
    if ok:
        ck.coq_props(["C11/Props.v", "C11/Refuted.v"])
    binp = ck.go_build("./cmd/c11", "c11")
    if not binp:
        return
    if getattr(ck, "replay", None):
        cases = run_harness(ck, binp, ["replay", ck.replay])
        if cases is None:
            return
    else:
        n = 400 if ck.tier == "quick" else 6000
        cases = run_harness(ck, binp, [str(n)], expect=n)
        if cases is None:
            return
        # minimised past failures first
        cdir = os.path.join(ck.verif, "corpus", PID)
        extra = []
        for f in sorted(os.listdir(cdir)) if os.path.isdir(cdir) else []:
            if f.endswith(".case"):
                r = run_harness(ck, binp, ["replay", os.path.join(cdir, f)])
                if r:
                    extra += r
        cases = extra + cases
    # a case in which the code under test panicked has no routing / mapping results to compare: it goes to the oracle loop only
    evidx = [i for i, c in enumerate(cases) if c["label"] != "panic"]
    if ok:
        m0, evok = eval_model(ck, [cases[i] for i in evidx])
        mism = {evidx[k]: v for k, v in m0.items()}
    else:
        mism, evok = {}, False

    # ---- variant detection and correspondence
    mask = FULL
    first_zero = None
    for i in range(len(cases)):
        codes, m = mism.get(i, ([], FULL))
        if mask & m == 0 and first_zero is None and mask != 0:
            first_zero = i
        mask &= m
    code_fail = [(i, mism[i][0]) for i in sorted(mism) if mism[i][0]]
    variants = [V_NAMES[i] for i in range(NV) if mask >> i & 1]
    ck.cov["model_variants_matching_impl"] = variants
    ck.notes.append("implementation matches model variants: %s" % (variants or "none"))

    # ---- direct oracle on the implementation
    nontriv = set()
    hist = {"label": {}, "typ": {}, "nsk": {}, "ptnum": {}, "dur": {}, "measurements": {}, "batches": {},
            "measurement_switches_inside_batches": {}, "alter_shardkey": {}, "db_shardkey": {}, "resharding": {}, "partition_status": {}, "point_err": {}, "split": 0, "nocond": 0}
    sat_routed = 0
    known_hits = {}
    latent = 0
    viol = 0
    for i, c in enumerate(cases):
        cf = c["cfg"]
        nb = sum(1 for p in c["points"] if p["newbatch"])
        mixed = 0
        prev = None
        for p in c["points"]:
            if not p["newbatch"] and prev is not None and prev != p["m"]:
                mixed += 1
            prev = p["m"]
        for k, v in (("label", c["label"]), ("typ", cf["typ"]), ("nsk", len(cf["msts"][c["qm"]]["sk"] or [])), ("ptnum", cf["ptnum"]),
                     ("dur", cf["dur"]), ("measurements", len(cf["msts"])), ("batches", nb),
                     ("measurement_switches_inside_batches", min(mixed, 5)), ("alter_shardkey", c["alter"] is not None),
                     ("partition_status", ("hard-write, " if cf.get("hardwrite") else "") + (
                         "all online" if not cf.get("offline") and not cf.get("offline_read") else
                         "same partition offline at write and query" if cf.get("offline_read") is None or set(cf["offline_read"]) == set(cf.get("offline") or []) else
                         "changed between write and query")),
                     ("resharding", "none" if not c.get("reshard") else ("done" if c["reshard"].get("done") else "skipped")),
                     ("db_shardkey", "none" if not cf.get("dbsk") else
                      ("db+mst" if (cf["msts"][c["qm"]]["sk"] or []) else "db only"))):
            hist[k][str(v)] = hist[k].get(str(v), 0) + 1
        hist["split"] += 1 if c["split"] else 0
        hist["nocond"] += 0 if c["hascond"] else 1
        pruned = any(len(t["sids"]) < len(g["alive"] or []) for t in c["targets"] for g in c["groups"] if g["id"] == t["gid"])
        ns = 0
        for p in c["points"]:
            hist["point_err"][p["err"].split(":")[0] or "routed"] = hist["point_err"].get(p["err"].split(":")[0] or "routed", 0) + 1
            if not p["err"] and p["sat"] and p["intr"] and p["m"] == c["qm"]:
                ns += 1
        sat_routed += ns
        if pruned and ns > 0:
            nontriv.add(json.dumps([cf, c["condtext"], c["label"], c["qm"], [(p["m"], p["tags"], p["time"]) for p in c["points"]]], sort_keys=True))
        for msg in c["oracle"]:
            # signature of C11-stale-alive-list-after-rejected-row: database key (hashing) on a policy whose groups have different
            # shard counts; a panic in ShardFor, or a misplaced row preceded in its batch by a row turned away for its shard key
            counts = {len(g["shards"] or []) for g in c["groups"] or []}
            if cf.get("dbsk") and cf["typ"] == "range" and len(counts) > 1 and ck.match_finding(F_STALE_ALIVE):
                hit = msg.startswith("panic: ") and "index out of range" in msg and "ShardFor" in msg
                if not hit and (msg.startswith("prune: point ") or msg.startswith("hintprune: hint ") or msg.startswith("samekey: points ")):
                    w = msg.split()
                    idxs = [int(w[2]), int(w[3])] if msg.startswith("samekey") else [int(w[2] if msg.startswith("prune") else w[4])]
                    for pi in idxs:
                        k = pi
                        while k > 0 and not c["points"][k]["newbatch"]:
                            k -= 1
                        hit = hit or any(c["points"][j]["err"] == "rejected" for j in range(k, pi))
                if hit:
                    known_hits[F_STALE_ALIVE] = known_hits.get(F_STALE_ALIVE, 0) + 1
                    if known_hits[F_STALE_ALIVE] == 1:
                        ck.known_finding(F_STALE_ALIVE, "after a row turned away for its shard key the next row of that shard group is routed with "
                                         "the alive list of the previous group: %s | database key %s, shard counts of the groups %s" % (
                                             msg[:300], cf.get("dbsk"), sorted(counts)))
                    continue
            if msg.startswith("samekey: points "):
                # two rows with the same shard-key pairs in one group went to different shards: the stale batch key
                a, b = int(msg.split()[2]), int(msg.split()[3])
                if (stale_after_dropped_row(c, a) or stale_after_dropped_row(c, b)) and ck.match_finding(F_DROP):
                    known_hits[F_DROP] = known_hits.get(F_DROP, 0) + 1
                    if known_hits[F_DROP] == 1:
                        ck.known_finding(F_DROP, "a row is hashed by the shard key of ANOTHER measurement of its write batch: %s" % msg[9:])
                    continue
            if msg.startswith("prune: point ") or msg.startswith("hintprune: hint "):
                # signature of C11-alive-set-change-skips-online-shard: hash sharding in force, no shard list of the measurement's
                # own, and the alive index list of the row's group changed between the write and the query (the harness only
                # reports rows whose shard is online when the query runs)
                pi = int(msg.split()[2] if msg.startswith("prune") else msg.split()[4])
                p = c["points"][pi]
                g = [x for x in c["groups"] if x["id"] == p["gid"]]
                qmst = cf["msts"][c["qm"]]
                moved = False
                if g and p.get("hash") and (g[0].get("alive") or []):
                    # the row's hash picks another position in the query-time list than the shard the row was written to
                    al = g[0]["alive"]
                    sids = [x["id"] for x in g[0]["shards"] or []]
                    moved = sids[al[int(p["hash"]) % len(al)]] != p["sid"]
                fid = F_HW if cf.get("hardwrite") else F_ALIVE
                if ((cf["typ"] == "hash" or cf.get("dbsk")) and not qmst.get("initnum") and g and moved
                        and (g[0].get("walive") or []) != (g[0].get("alive") or []) and ck.match_finding(fid)):
                    known_hits[fid] = known_hits.get(fid, 0) + 1
                    if known_hits[fid] == 1:
                        ck.known_finding(fid, "the alive shard list changed between write and query and an ONLINE shard holding a "
                                         "matching row is skipped: %s | cond: %s | alive at write %s, at query %s, hard-write %s" % (
                                             msg.split(": ", 1)[1], c["condtext"], g[0].get("walive"), g[0].get("alive"), cf.get("hardwrite")))
                    continue
            if msg.startswith("hintprune: hint ") and classify(c, int(msg.split()[4])) == "latent-and":
                latent += 1   # the hinted query goes through the same getConditionTags
                continue
            if msg.startswith("hintprune: hint "):
                # signature of C11-hint-query-hashes-range-sharded: hinted query, range sharding in force (no database key),
                # the row lies in a group with at least two shards
                pi = int(msg.split()[4])
                p = c["points"][pi]
                g = [x for x in c["groups"] if x["id"] == p["gid"]]
                if cf["typ"] == "range" and not cf.get("dbsk") and g and len(g[0]["shards"] or []) >= 2 and ck.match_finding(F_HINT_RANGE):
                    known_hits[F_HINT_RANGE] = known_hits.get(F_HINT_RANGE, 0) + 1
                    if known_hits[F_HINT_RANGE] == 1:
                        ck.known_finding(F_HINT_RANGE, "a hinted query on a range-sharded measurement consults a shard chosen by hash: %s | cond: %s | "
                                         "key ranges of the group: %s" % (msg[11:], c["condtext"], [(s["min"], s["max"]) for s in g[0]["shards"]]))
                    continue
            if msg.startswith("prune: point "):
                pi = int(msg.split()[2])
                kind = classify(c, pi)
                if kind in (F_OR, F_ACC, F_DROP, F_SKI) and ck.match_finding(kind):
                    known_hits[kind] = known_hits.get(kind, 0) + 1
                    if known_hits[kind] == 1:
                        what = {F_OR: "TargetShards skips the shard holding a row that satisfies the query",
                                F_ACC: "TargetShards skips the shard holding a row that satisfies the query",
                                F_DROP: "a row is hashed by the shard key of ANOTHER measurement of its write batch, so the query on its own key skips its shard",
                                F_SKI: "mapMstShards prunes every group with the shard key of the first group although the key was altered in between"}[kind]
                        ck.known_finding(kind, "%s: %s | cond: %s | measurements %s, %s shards" % (
                            what, msg[7:], c["condtext"], [(m["mst"], [v["sk"] for v in m["vers"]]) for m in cf["msts"]], cf["ptnum"]))
                    continue
                if kind == "latent-and":  # the tree's AND is today's: getConditionTags returned a set with two values for one key
                    # AND with alternatives on a paren-free tree: outside the parser's image, not reachable by a query
                    latent += 1
                    continue
            viol += 1
            if viol <= 3:
                ck.violation({"kind": "direct-oracle", "what": msg, "case": c, "case_index": i})
    if latent:
        ck.notes.append("latent (not reachable from the parser): %d rows skipped on paren-free AND-with-alternatives trees" % latent)
    for f in ck.findings:
        if f.get("status") == "open" and f["id"] not in known_hits and f["id"] != F_REUSE:  # F_REUSE is looked for later (stream_reuse)
            ck.notes.append("open finding %s did not reproduce in this run (stale entry?)" % f["id"])
    ck.cov["known_finding_hits"] = known_hits

    if ok and evok:
        if code_fail:
            i, codes = code_fail[0]
            ck.broken.append("correspondence C11 model/implementation differs on case %d: %s" % (
                i, ", ".join(CODE_TXT.get(x, str(x)) for x in sorted(set(codes)))))
            ck.nofail_detail = {"kind": "correspondence", "case_index": i, "codes": codes, "case": cases[i]}
        elif mask == 0:
            i = first_zero if first_zero is not None else 0
            ck.broken.append("correspondence C11: no variant of batch routing / cond_tags / target reproduces the write path's "
                             "batch loop, getConditionTags and TargetShards (first contradiction at case %d)" % i)
            ck.nofail_detail = {"kind": "correspondence", "case_index": i, "case": cases[i],
                                "explanation": "model variants agreeing with this case: %s" % [V_NAMES[k] for k in range(NV) if mism.get(i, ([], FULL))[1] >> k & 1]}

    ck.cov["evaluations"] = len(cases)
    ck.cov["distinct_nontrivial"] = len(nontriv)
    ck.cov["traces_validated_against_impl"] = len(cases) - len(code_fail) - (0 if mask else 1) if ok and evok else 0
    ck.cov["rule"] = ("case = generated catalogue (database with or without a shard key; 1-3 measurements with their own shard keys (0-3 "
                      "tags) and shard lists, partition count, group duration, hash/range, partitions offline at write and/or at query "
                      "time, hard-write, deleted/truncated group, optional ALTER SHARDKEY or real Data.ReSharding between two batches) "
                      "+ write batches interleaving the measurements (5-14 rows on/around group boundaries, rows dropped by the schema "
                      "check, series whose key equals a split point) routed by the real per-batch loop + condition tree on one "
                      "measurement, also run with the full_series and specific_series hints; non-trivial = the read path pruned at "
                      "least one alive shard AND at least one routed row of the queried measurement satisfies the query; distinct = "
                      "different (cfg, condition, queried measurement, rows)")
    if not getattr(ck, "replay", None):
        low = next((i for i in range(NV) if mask >> i & 1), None)
        alt_builders(ck, binp, None if low is None else (bool(low & 4), bool(low & 2), bool(low & 1)), ok and evok)
        stream_reuse(ck, binp, known_hits)
        blackbox(ck)
    ck.cov["points_routed_and_satisfying"] = sat_routed
    ck.cov["input_histogram"] = hist
    ck.cov["samples"] = [{"cfg": c["cfg"], "cond": c["condtext"], "label": c["label"], "targets": c["targets"],
                          "points": [(p["m"], p["tags"], p["time"], p["sid"], p["sat"]) for p in c["points"][:3]]} for c in cases[:3]]
