"""C06 - what is written through the line protocol is exactly what queries return. See DESIGN.md section 4 C06
and props/C06/NOTES.md."""
import collections
import json
import os
import re
import time

PID = "C06"

# bit of the model configuration (coq/C06/Corr.v: cfg_of_mask) -> finding id
MASK_BITS = [(1, "C06-int53"), (2, "C06-fsuffix"), (4, "C06-midbatch-error-lost"), (8, "C06-plus-zero"),
             (16, "C06-strquote"), (32, "C06-neg-dot"), (64, "C06-ts-overflow")]
FEXP = "C06-float-exp"


def zl(hexs):
    return '(H "%s"%%string)' % hexs.lower()


def zz(n):
    n = int(n)
    return "(%d)" % n if n < 0 else "%d" % n


def case_coq(c):
    if c["err"]:
        impl = "None"
    else:
        rows = []
        for r in c["rows"]:
            tags = "[" + "; ".join("(%s, %s)" % (zl(k), zl(v)) for k, v in r["tags"]) + "]"
            fields = "[" + "; ".join("(%s, %d, %s, %s, %s)" % (zl(f["k"]), f["t"], zz(f["bits"]), zz(f["stored"]), zl(f["s"]))
                                     for f in r["fields"]) + "]"
            ts = "None" if r["ts"] is None else "(Some %s)" % zz(r["ts"])
            rows.append("(%s, %s, %s, %s)" % (zl(r["name"]), tags, fields, ts))
        impl = "(Some [" + "; ".join(rows) + "])"
    return "(%s, %s, %s)" % (zz(c["mult"]), zl(c["in"]), impl)


def rows_coq(rows):
    out = []
    for r in rows:
        tags = "[" + "; ".join("(%s, %s)" % (zl(k), zl(v)) for k, v in r["tags"]) + "]"
        fields = "[" + "; ".join("(%s, %d, %s, %s, %s)" % (zl(f["k"]), f["t"], zz(f["bits"]), zz(f["stored"]), zl(f["s"]))
                                 for f in r["fields"]) + "]"
        ts = "None" if r["ts"] is None else "(Some %s)" % zz(r["ts"])
        out.append("(%s, %s, %s, %s)" % (zl(r["name"]), tags, fields, ts))
    return "[" + "; ".join(out) + "]"


def hcase_coq(c):
    """write-endpoint case: (factor, max-body-size, Content-Length, gzip, stream breaks off, decoded body, acknowledged, stored rows)"""
    h = c["http"]
    lim = "None" if not h["limit"] else "(Some %d)" % h["limit"]
    dec = "None" if h["declared"] < 0 else "(Some %d)" % h["declared"]
    gz = "true" if h["kind"].startswith("gzip") else "false"
    broken = "true" if h["kind"] in ("chunked-abort", "gzip-broken") else "false"
    return "(%s, %s, %s, %s, %s, %s, %s, %s)" % (zz(c["mult"]), lim, dec, gz, broken, zl(c["in"]), "false" if c["err"] else "true", rows_coq(c["rows"]))


def scase_coq(c):
    """block-reader case: (end, max-line-size, schedule, stream, observed blocks, clean end). A max-line-size beyond the
    length of the stream is clamped to it (never reached either way; keeps unary numbers small)."""
    st = c["stream"]
    n = len(st["body"]) // 2
    sched = "[" + "; ".join("[" + "; ".join(str(x) for x in ch) + "]" for ch in st["sched"]) + "]"
    blocks = "[" + "; ".join("(%s, %d)" % (zl(b["b"]), b["cap"]) for b in st["blocks"]) + "]"
    return "(%d, %d, %s, %s, %s, %s)" % (st["end"], min(st["maxline"], n + 1), sched, zl(st["body"]), blocks, "true" if st["ok"] else "false")


def wcase_coq(c):
    """points-writer case: (body, per row (dropped, error reported, row handed on)). A row handed on without any field is
    refused further down the write path ("point without fields is unsupported"): dropped with an error, as the model says."""
    obs = []
    for o in c["writer"]:
        row = o["row"]
        if row is not None and not row["fields"]:
            obs.append("(true, true, None)")
        elif o["dropped"] or row is None:
            obs.append("(true, %s, None)" % ("true" if o["err"] else "false"))
        else:
            obs.append("(false, %s, Some %s)" % ("true" if o["err"] else "false", rows_coq([row])[1:-1]))
    return "(%s, [%s])" % (zl(c["in"]), "; ".join(obs))


def canary_of(kind, c):
    """a corrupted copy of a case: the evaluation must report it (permanent canary, fail closed; the shortest case of the shard is used)"""
    c = json.loads(json.dumps(c))
    if kind == "w":
        c["writer"][0]["err"] = not c["writer"][0]["err"]
    elif kind == "s":
        c["stream"]["ok"] = not c["stream"]["ok"]
    else:
        c["err"] = not c["err"]
        if c["err"]:
            c["rows"] = []
    return c


STATE_NAMES = {"StateInitial": "SInit", "StateIntSign": "SSign", "StateInteger": "SInt", "StatePoint": "SPoint",
               "StatePointWithoutInt": "SPointNoInt", "StateFraction": "SFrac", "StateExp": "SExp", "StateExpSign": "SExpSign",
               "StateExpNumber": "SExpNum"}
REACH = {"SInit": "", "SSign": "+", "SInt": "1", "SPoint": "1.", "SPointNoInt": ".", "SFrac": "1.5", "SExp": "1e", "SExpSign": "1e+", "SExpNum": "1e5"}


def source_tables_coq(ck):
    """Translates, from the working tree, the tables and constants the model copies: the transition table, character classes
    and accepting states of valid_number.go, influx.Field_Type_*, the length limits of lib/util/util.go and the reserved key
    of the points writer - into one Coq boolean that compares them with Model.v / ModelWriter.v. Fails closed: anything that
    cannot be read from the source is reported, never skipped."""
    def src(rel):
        return open(os.path.join(ck.repo, rel)).read()
    errs = []
    conj = []
    vn = src("lib/util/lifted/vm/protoparser/influx/valid_number.go")
    m = re.search(r"const \(\s*CharNumber CharType = iota(.*?)\)", vn, re.S)
    classes = ["CharNumber"] + (re.findall(r"^\s*(Char\w+)\s*$", m.group(1), re.M) if m else [])
    if classes != ["CharNumber", "CharExp", "CharPoint", "CharSign", "CharIllegal"]:
        errs.append("character classes of valid_number.go: %r" % (classes,))
    chars = {}
    for body, cls in re.findall(r"case ((?:'.'(?:,\s*)?)+):\s*return (Char\w+)", vn):
        chars[cls] = [ord(x) for x in re.findall(r"'(.)'", body)]
    if sorted(chars) != ["CharExp", "CharNumber", "CharPoint", "CharSign"]:
        errs.append("toCharType of valid_number.go: %r" % (chars,))
    rows = re.findall(r"transfer\[(State\w+)\]\s*=\s*\[CharIllegal\]State\{([^}]*)\}", vn)
    if sorted(r[0] for r in rows) != sorted(STATE_NAMES):
        errs.append("transfer rows of valid_number.go: %r" % ([r[0] for r in rows],))
    if not errs:
        allchars = set()
        for st, targets in rows:
            ts = [t.strip() for t in targets.split(",")]
            if len(ts) != 4:
                errs.append("transfer row %s has %d entries" % (st, len(ts)))
                continue
            for cls, t in zip(classes[:4], ts):
                want = "None" if t == "StateNone" else ("(Some %s)" % STATE_NAMES.get(t, "?" + t))
                if "?" in want:
                    errs.append("unknown state %s" % t)
                for ch in chars[cls]:
                    allchars.add(ch)
                    conj.append("nst_opt_eqb (nstep %s %d%%N) %s" % (STATE_NAMES[st], ch, want))
        others = "[" + "; ".join("%d%%N" % b for b in range(256) if b not in allchars) + "]"
        for st in STATE_NAMES.values():
            conj.append("forallb (fun c => nst_opt_eqb (nstep %s c) None) %s" % (st, others))
        m = re.search(r"return (state == State\w+(?:\s*\|\|\s*state == State\w+)*)\s*\}", vn)
        acc = set(re.findall(r"state == (State\w+)", m.group(1))) if m else None
        if not acc:
            errs.append("accepting states of IsValidNumber")
        else:
            for go, coq in STATE_NAMES.items():
                lit = "(H \"%s\"%%string)" % REACH[coq].encode().hex()
                conj.append("nst_opt_eqb (nrun SInit %s) (Some %s)" % (lit, coq))
                conj.append("Bool.eqb (valid_number %s) %s" % (lit, "true" if go in acc else "false"))
    ps = src("lib/util/lifted/vm/protoparser/influx/parser.go")
    for name, coq in (("Int", "ty_int"), ("Float", "ty_float"), ("String", "ty_string"), ("Boolean", "ty_bool"), ("Tag", "ty_tag")):
        m = re.search(r"^\s*Field_Type_%s\s*=\s*(\d+)\s*$" % name, ps, re.M)
        if not m:
            errs.append("Field_Type_%s" % name)
        else:
            conj.append("(%s =? %s)" % (coq, m.group(1)))
    ut = src("lib/util/util.go")
    vals = {}
    for name in ("MaxMeasurementLengthWithVersion", "MeasurementVersionLength", "MaxTagNameLength", "MaxTagValueLength", "MaxFieldNameLength"):
        m = re.search(r"^\s*%s\s*=\s*([0-9* ]+?)\s*$" % name, ut, re.M)
        if not m:
            errs.append(name)
        else:
            v = 1
            for f in m.group(1).split("*"):
                v *= int(f)
            vals[name] = v
    if not re.search(r"^\s*MaxMeasurementLength\s*=\s*MaxMeasurementLengthWithVersion - MeasurementVersionLength\s*$", ut, re.M):
        errs.append("MaxMeasurementLength")
    if len(vals) == 5:
        conj.append("(Z.of_nat max_name_len =? %d)" % (vals["MaxMeasurementLengthWithVersion"] - vals["MeasurementVersionLength"]))
        conj.append("(Z.of_nat max_key_len =? %d)" % vals["MaxTagNameLength"])
        conj.append("(Z.of_nat max_key_len =? %d)" % vals["MaxFieldNameLength"])
        conj.append("(max_tagval_len =? %d)" % vals["MaxTagValueLength"])
    # the precision table of serveWrite (the harnesses send these names and the model is given the factor)
    hd = src("lib/util/lifted/influx/httpd/handler.go")
    m = re.search(r"switch precision \{(.*?)\n\t\}", hd, re.S)
    table = {}
    if m:
        for names, val in re.findall(r"case ((?:\"[^\"]*\"(?:,\s*)?)+):\s*tsMultiplier = ([0-9e* ]+)", m.group(1)):
            v = 1
            for f in val.split("*"):
                v *= int(float(f))
            for nm in re.findall(r'"([^"]*)"', names):
                table[nm] = v
    if table != {"ns": 1, "u": 10**3, "us": 10**3, "µ": 10**3, "ms": 10**6, "s": 10**9, "m": 6 * 10**10, "h": 36 * 10**11}:
        errs.append("precision table of serveWrite (found %r)" % (table,))
    pw = src("coordinator/points_writer.go")
    wh = src("coordinator/write_helper.go")
    m1 = re.search(r'fields\[i\]\.Key == "(\w+)"', pw)
    m2 = set(re.findall(r'tag\.Key == "(\w+)"', wh))
    if not m1 or len(m2) != 1 or m1.group(1) not in m2:
        errs.append("reserved key of fixFields / updateSchemaCheck")
    else:
        conj.append("list_beq time_key (H \"%s\"%%string)" % m1.group(1).encode().hex())
    for e in errs:
        ck.broken.append("C06 source tables: cannot read %s from the working tree (the model's copy is unchecked)" % e)
    if errs:
        return None
    return ("From Coq Require Import ZArith NArith List Bool String. From OG Require Import C06.Model C06.ModelWriter C06.Corr.\n"
            "Import ListNotations. Open Scope Z_scope.\n"
            "Definition nst_code (s : nst) : Z := match s with SInit => 1 | SSign => 2 | SInt => 3 | SPoint => 4 | SPointNoInt => 5 | SFrac => 6 "
            "| SExp => 7 | SExpSign => 8 | SExpNum => 9 end.\n"
            "Definition nst_opt_eqb (a b : option nst) : bool := match a, b with Some x, Some y => nst_code x =? nst_code y | None, None => true | _, _ => false end.\n"
            "Definition checks : list bool := [\n%s\n].\n"
            "Definition K := Eval vm_compute in (List.length checks, forallb (fun b => b) checks).\nPrint K.\n" % ";\n".join(conj)), len(conj)


HEAD = ("From Coq Require Import ZArith NArith List Bool String. From OG Require Import C06.Model C06.Corr.\n"
        "Import ListNotations. Open Scope Z_scope.\n")


def eval_model(ck, cases, shard=150):
    """returns ({case index: code} for codes != 0, [indices of stream cases the reader model does not reproduce]),
    or None when the evaluation itself failed"""
    files = []
    groups = []          # per file: (kind, [global indices])
    plain = [i for i, c in enumerate(cases) if not c.get("http") and not c.get("writer")]
    writer = [i for i, c in enumerate(cases) if c.get("writer") and not c["err"] and len(c["writer"]) > 0]
    http = [i for i, c in enumerate(cases) if c["class"] == "httpw" and c["http"]["status"] != -1]   # -1: no answer read (transport), counted below
    stream = [i for i, c in enumerate(cases) if c.get("stream")]
    for kind, idxs, typ, fn, conv, sh in (("p", plain, "icase", "codes", case_coq, shard), ("h", http, "hcase", "hcodes", hcase_coq, 12),
                                          ("s", stream, "scase", "scodes", scase_coq, 40), ("w", writer, "wcase", "wcodes", wcase_coq, 40)):
        for i in range(0, len(idxs), sh):
            chunk = idxs[i:i + sh]
            # the last entry of every shard is a corrupted copy of its shortest case: it must come back with a code
            small = min(chunk, key=lambda j: len(cases[j]["in"]))
            texts = [conv(cases[j]) for j in chunk] + [conv(canary_of(kind, cases[small]))]
            txt = HEAD + ("Definition cases : list %s := [\n%s\n].\nDefinition M := Eval vm_compute in %s cases.\nPrint M.\n"
                          % (typ, ";\n".join(texts), fn))
            files.append(("c06cases%s%d" % (kind, i // sh), txt))
            groups.append((kind, chunk))
    tables = source_tables_coq(ck)
    if tables is None:
        return None
    files.append(("c06tables", tables[0]))
    groups.append(("t", []))
    res = ck.coq_eval_many(files, timeout=600)
    codes = {}
    sbad = []
    ok = True
    for idx, (rc, out) in enumerate(res):
        if groups[idx][0] == "t":
            mk = re.search(r"K\s*=\s*\(\s*(\d+)(?:%\w+)?\s*,\s*(true|false)\s*\)", out)
            if rc != 0 or not mk or int(mk.group(1)) != tables[1] or mk.group(2) != "true":
                ck.broken.append("C06 source tables: the automaton of valid_number.go, influx.Field_Type_*, the length limits of util.go or the reserved key "
                                 "differ from the model's copies (or the comparison did not run): %s" % out[-300:])
                ok = False
            else:
                ck.cov["source_tables_compared"] = tables[1]
            continue
        m = re.search(r"M\s*=\s*(.*?)\s*:\s*list", out, re.S)
        if rc != 0 or not m:
            ck.broken.append("C06 model evaluation failed on shard %d: %s" % (idx, out[-400:]))
            ok = False
            continue
        kind, chunk = groups[idx]
        pairs = re.findall(r"\(\s*(\d+)(?:%\w+)?\s*,\s*(\d+)(?:%\w+)?\s*\)", m.group(1))
        if len(pairs) != m.group(1).count("("):
            # fail closed: every printed (index, code) pair must have been read (scope suffixes, negative codes, ...)
            ck.broken.append("C06 model evaluation: %d of the %d result pairs of shard %d could be read: %s"
                             % (len(pairs), m.group(1).count("("), idx, m.group(1)[:300]))
            ok = False
            continue
        if not any(int(a) == len(chunk) and int(b) != 0 for a, b in pairs):
            ck.broken.append("C06 model evaluation: the canary (a corrupted copy of a case) of shard %d (%s) was not reported" % (idx, kind))
            ok = False
            continue
        for a, b in pairs:
            if int(a) == len(chunk):
                continue
            if kind == "s":
                sbad.append((chunk[int(a)], int(b)))
            else:
                codes[chunk[int(a)]] = int(b)
    return (codes, sbad) if ok else None


def code_ids(code):
    """finding ids the model needs to reproduce the implementation on a case; None = irreproducible"""
    if code == 999:
        return None
    ids = []
    if code >= 1000:
        w, code = divmod(code, 1000)
        if w & 1:
            ids.append("C06-time-field-dropped")
        if w & 2:
            ids.append("C06-time-tag-dropped")
    if code >= 100:
        ids.append(FEXP)
        code -= 100
    for bit, fid in MASK_BITS:
        if code & bit:
            ids.append(fid)
    return ids


def judge(ck, cases, codes, stats):
    """classification of every case; reports known findings / violations / broken correspondences"""
    reported = 0
    for i, c in enumerate(cases):
        code = codes.get(i, 0)
        mids = code_ids(code)
        oids = [o["id"] for o in c["oracle"]]
        if c["class"] == "promwrite" or (c["class"] == "httpw" and c["http"]["status"] == -1):
            # not evaluated by the model (oracle-only class / no answer read): the oracle's findings stand on their own
            mids = sorted(set(o for o in oids if o != "none"))
        replay = {"kind": "direct-oracle", "case_index": c["i"], "class": c["class"], "sub": c.get("sub"), "mult": c["mult"],
                  "in": c["in"], "text": c["text"], "implementation": {"err": c["err"], "rows": c["rows"]},
                  "oracle": c["oracle"], "model_code": code}
        if c.get("http"):
            replay["http"] = c["http"]
        if "none" in oids:
            # the property statement fails on the real code and no recorded signature covers the input
            if reported < 3:
                ck.violation(replay)
            reported += 1
            stats["unlisted_failures"] += 1
            continue
        if mids is None:
            if oids:
                ids = set(oids)
            else:
                ck.broken.append("correspondence C06: no configuration of the model reproduces the implementation on case %d (%s%r)"
                                 % (c["i"], ("write endpoint %s, answered %s: " % (c["http"]["kind"], c["http"]["status"])) if c.get("http") else "", c["text"][:120]))
                if not getattr(ck, "nofail_detail", None):
                    ck.nofail_detail = dict(replay, kind="correspondence")
                continue
        else:
            ids = set(oids) | set(mids)
            if c["class"] == "writer" and mids and set(mids) - set(oids) and set(mids) - set(oids) <= set(c.get("triggers") or []):
                # the writer model needs a reserved-key variant whose only visible trace on this request is indirect (a
                # refused row whose other keys still enter the schema and decide a later row's type conflict): the
                # request holds the finding's trigger, the attribution stands without an oracle failure of its own
                pass
            elif c["judged"] and mids and not oids:
                ck.broken.append("C06: model needs deviation %s on case %d but the direct oracle saw no failure (%r)"
                                 % (mids, c["i"], c["text"][:120]))
                ck.nofail_detail = dict(replay, kind="oracle-vs-model")
                continue
            if oids and not mids:
                ck.broken.append("C06: direct oracle reports %s on case %d but the implementation matches the repaired model (%r)"
                                 % (oids, c["i"], c["text"][:120]))
                ck.nofail_detail = dict(replay, kind="oracle-vs-model")
                continue
        for fid in sorted(ids):
            stats["by_finding"][fid] += 1
            if ck.match_finding(fid):
                what = next((o["what"] for o in c["oracle"] if o["id"] == fid), "implementation behaves as the unrepaired model")
                if fid not in stats["first"]:
                    stats["first"][fid] = "%s [input %r]" % (what, c["text"][:100])
            else:
                # not listed, or listed as fixed: a fixed entry suppresses nothing
                if reported < 3:
                    ck.violation(dict(replay, finding=fid, note="failing input satisfies the signature of %s which is not an open finding" % fid))
                reported += 1


def run_e2e(ck, binp, stats):
    """black-box part: one ts-server built from the working tree, /write then /query?epoch=ns"""
    server = ck.go_build_repo("./app/ts-server", "ts-server")
    if not server:
        return []
    n = 40 if ck.tier == "quick" else 400
    wd = os.path.join(ck.work, "e2e")
    os.makedirs(wd, exist_ok=True)
    tmpl = os.path.join(ck.repo, "config", "openGemini.singlenode.conf")
    rc, out = ck.run([binp, "e2e", server, tmpl, wd, str(n)], timeout=1500)
    cases = [json.loads(l) for l in out.split("\n") if l.startswith('{"e2e"')]
    done = re.search(r'\{"e2e_done":(\d+)\}', out)
    if rc != 0 or not done or int(done.group(1)) != len(cases) or len(cases) < n:
        ck.broken.append("harness c06 e2e failed rc=%d cases=%d: %s" % (rc, len(cases), out[-600:]))
        return cases
    reported = 0
    for c in cases:
        for o in c["oracle"]:
            fid = o["id"]
            replay = {"kind": "direct-oracle-e2e", "class": c["class"], "sub": c.get("sub"), "precision": c.get("prec", ""), "text": c["text"],
                      "in": c["text"].encode("utf-8", "surrogateescape").hex(), "http_status": c["status"], "query_answer": c["got"], "oracle": c["oracle"]}
            if fid != "none" and ck.match_finding(fid):
                stats["by_finding"][fid] += 1
                stats["first"].setdefault(fid, "%s [input %r, HTTP %s]" % (o["what"], c["text"][:100], c["status"]))
            else:
                if reported < 3:
                    ck.violation(dict(replay, finding=fid))
                reported += 1
    return cases


def main(ck):
    ck.assumptions += [
        "decimal -> binary64 conversion: the theorems take the conversion the parser calls as a Section variable dec2f; the float theorems "
        "have the hypothesis that it is the correctly rounded conversion Model.dec2f_exact (exact integer arithmetic, proved correctly rounded: "
        "C06_dec2f_exact_nearest_binary64: for every text the binary64 nearest to the decimal value among all binary64 values, no premise). The hypothesis is CHECKED on every run: every float field the implementation stores (the real "
        "parser, strconv.ParseFloat since 8629b74) is compared bit for bit with dec2f_exact of its literal - random spellings, 17+ digit "
        "literals, exact midpoints between neighbouring doubles and their neighbours, subnormals, 'f'-suffixed literals "
        "(coverage float_literals_checked_against_dec2f_exact)",
        "float64 -> int64 of out-of-range values behaves as on amd64 (0x8000000000000000)",
        "tag arrays disabled (the default); precision parameter ns (factor 1) in the parser differential",
        "strings.TrimSpace around the timestamp is modelled for ASCII white space only",
    ]
    ck.cov["trusted_base"] = ["Coq 8.16.1 kernel + vm_compute (cases evaluation, witnesses, Examples)",
                              "ts-server HTTP API (/write, /query?epoch=ns) as the end-to-end observation interface",
                              "Go harness cmd/c06 (generators, canonicaliser, direct oracle incl. strconv.ParseFloat), python driver props/C06/run.py",
                              "Section hypothesis dec2f_correct (premise of the float theorems)"]
    # the per-property fragment is the source of the merged known_findings.json; entries not merged yet count too
    frag = os.path.join(ck.verif, "props", PID, "findings.json")
    have = {f["id"] for f in ck.findings}
    ck.findings += [f for f in json.load(open(frag))["findings"] if f["property"] == PID and f["id"] not in have]
    t0 = time.time()
    phases = ck.cov.setdefault("phase_seconds", {})

    def lap(name):
        nonlocal t0
        phases[name] = round(time.time() - t0, 1)
        t0 = time.time()
    ck.coq_audit(["C06"])
    ok = ck.coq_build(["C06/Proofs.vo", "C06/ProofsInt.vo", "C06/ProofsDec.vo", "C06/ProofsRender.vo", "C06/ProofsStream.vo", "C06/ProofsFloat.vo", "C06/ProofsFloatAll.vo", "C06/ProofsDecParse.vo", "C06/ProofsValidGrammar.vo", "C06/ProofsWriter.vo", "C06/Corr.vo"])
    if ok:
        ck.coq_props(["C06/Props.v", "C06/Refuted.v"])
    lap("coq_build_and_props")
    binp = ck.go_build("./cmd/c06", "c06")
    lap("go_build")
    if not binp:
        return
    if getattr(ck, "replay", None):
        return replay(ck, binp, ok)
    n = 900 if ck.tier == "quick" else 20000
    rc, out = ck.run([binp, "gen", str(n), os.path.join(ck.verif, "corpus", PID)], timeout=1500)
    cases = [json.loads(l) for l in out.split("\n") if l.startswith('{"i"')]
    done = re.search(r'\{"done":(\d+)\}', out)
    if rc != 0 or not done or int(done.group(1)) != len(cases) or len(cases) < n:
        ck.broken.append("harness c06 failed rc=%d cases=%d: %s" % (rc, len(cases), out[-600:]))
        return
    sweep = re.search(r'\{"stream_sweep":(\d+),"failed":(\d+),"multi":(\d+),"refused":(\d+)\}', out)
    if not sweep:
        ck.broken.append("harness c06: block-reader boundary sweep did not report")
    else:
        ck.cov["block_reader_sweep_bodies"] = int(sweep.group(1))
        ck.cov["block_reader_sweep_failed"] = int(sweep.group(2))
        ck.cov["block_reader_sweep_multi_block"] = int(sweep.group(3))
        ck.cov["block_reader_sweep_refused"] = int(sweep.group(4))
        if int(sweep.group(4)) * 4 > int(sweep.group(1)):
            ck.broken.append("harness c06: the block reader refuses %s of the %s valid bodies of the boundary sweep - the sweep is vacuous"
                             % (sweep.group(4), sweep.group(1)))
        if int(sweep.group(3)) * 2 < int(sweep.group(1)):
            ck.broken.append("harness c06: the boundary sweep of the block reader is vacuous (%s of %s bodies arrived in more than one block)"
                             % (sweep.group(3), sweep.group(1)))
    lap("harness_in_process")
    ev = eval_model(ck, cases) if ok else None
    lap("model_evaluation")
    codes = ev[0] if ev is not None else None
    stats = {"by_finding": collections.Counter(), "first": {}, "unlisted_failures": 0}
    if codes is not None:
        judge(ck, cases, codes, stats)
        for i, code in [x for x in ev[1] if x[1] == 1][:3]:
            c = cases[i]
            ck.broken.append("correspondence C06 block reader: the delivered blocks are not the stream cut at newlines (the discipline "
                             "C06_blocks_cut_only_at_newlines proves of the model) on case %d (%s)" % (c["i"], c.get("sub")))
            if not getattr(ck, "nofail_detail", None):
                ck.nofail_detail = {"kind": "correspondence-block-reader", "case_index": c["i"], "sub": c.get("sub"), "stream": c["stream"]}
        nstream = sum(1 for c in cases if c.get("stream"))
        inexact = [i for i, code in ev[1] if code == 2]
        ck.cov["block_reader_runs"] = nstream
        ck.cov["block_reader_runs_cut_at_newlines_only"] = nstream - sum(1 for x in ev[1] if x[1] == 1)
        ck.cov["block_reader_runs_reproduced_block_by_block_by_model"] = nstream - len(ev[1])
        if inexact:
            ck.notes.append("block reader: on %d of %d runs the blocks are cut at newlines but not where read_blocks (ModelStream.v) cuts them "
                            "with the replayed capacities - the cutting strategy of the code is no longer the modelled one (first: case %d)"
                            % (len(inexact), nstream, cases[inexact[0]]["i"]))
        # vacuity guards: refusing is never a violation, but a run in which (almost) nothing is accepted checks nothing
        hc = [c for c in cases if c["class"] == "httpw"]
        pc = [c for c in cases if c["class"] == "promwrite"]
        ck.cov["prom_remote_write_requests"] = len(pc)
        ck.cov["prom_remote_write_acknowledged"] = sum(1 for c in pc if not c["err"])
        if pc and ck.cov["prom_remote_write_acknowledged"] * 2 < len(pc):
            ck.broken.append("harness c06: the remote-write endpoint acknowledges only %d of %d valid requests - the passage check is vacuous"
                             % (ck.cov["prom_remote_write_acknowledged"], len(pc)))
        hack = sum(1 for c in hc if not c["err"])
        ck.cov["http_requests"] = len(hc)
        noans = sum(1 for c in hc if c["http"]["status"] == -1 and c["http"]["kind"] != "chunked-abort")
        ck.cov["http_requests_without_answer"] = noans
        if noans * 10 > len(hc):
            ck.broken.append("harness c06: %d of %d requests to the in-process write endpoint got no answer" % (noans, len(hc)))
        ck.cov["http_requests_acknowledged"] = hack
        ck.cov["http_valid_requests_refused"] = sum(1 for c in hc if "valid-refused" in (c.get("sub") or ""))
        ck.cov["http_streamed_bodies_over_limit"] = sum(1 for c in hc if c["http"]["stream"] and c["http"]["limit"] and c["http"]["kind"] == "chunked" and len(c["in"]) // 2 > c["http"]["limit"])
        ck.cov["http_streamed_bodies_over_limit_refused"] = sum(1 for c in hc if c["err"] and c["http"]["stream"] and c["http"]["limit"] and c["http"]["kind"] == "chunked" and len(c["in"]) // 2 > c["http"]["limit"])
        if hc and (hack * 5 < len(hc) or ck.cov["http_valid_requests_refused"] * 4 > len(hc)):
            ck.broken.append("harness c06: the write endpoint refuses (almost) everything (%d of %d requests acknowledged, %d valid ones refused) - "
                             "the framing checks are vacuous" % (hack, len(hc), ck.cov["http_valid_requests_refused"]))
        sc = [c for c in cases if c.get("stream")]
        srefused = sum(1 for c in sc if "valid-refused" in (c.get("sub") or ""))
        if sc and srefused * 4 > len(sc):
            ck.broken.append("harness c06: the block reader refuses %d of %d valid bodies - the framing checks are vacuous" % (srefused, len(sc)))
    else:
        # proofs or model do not build: still run the direct oracle alone
        for c in cases:
            if any(o["id"] == "none" for o in c["oracle"]):
                ck.violation({"kind": "direct-oracle", "text": c["text"], "in": c["in"], "oracle": c["oracle"]})
                break
    e2e = run_e2e(ck, binp, stats)
    lap("end_to_end")
    for fid, what in sorted(stats["first"].items()):
        ck.known_finding(fid, "%s (%d failing inputs in this run)" % (what, stats["by_finding"][fid]))
    # coverage
    hist = collections.Counter((c["class"] + ("/" + c["sub"] if c.get("sub") and c["class"] != "corpus" and not c["class"].startswith("stream") else "")) for c in cases)
    nontriv = set(c["in"] for c in cases if c["nontrivial"])
    ck.cov["evaluations"] = len(cases) + len(e2e) + ck.cov.get("block_reader_sweep_bodies", 0)
    ck.cov["e2e_requests"] = len(e2e)
    ck.cov["e2e_histogram"] = dict(collections.Counter("%s/%s/%s" % (c["class"], c.get("sub", ""), c["status"]) for c in e2e))
    ck.cov["distinct_nontrivial"] = len(nontriv)
    ck.cov["rule"] = ("request blocks from one PRNG (valid lines in every escape form and numeric spelling, malformed classes, batches mixing "
                      "valid/invalid/blank/comment lines, byte-mutated lines) + corpus; non-trivial = contains an escape or quote, an integer "
                      "beyond 2^53, an exponent-form float, or is malformed/batch/mutated; distinct = different request bytes")
    ck.cov["class_histogram"] = dict(hist)
    ck.cov["model_codes_histogram"] = dict(collections.Counter(str(v) for v in (codes or {}).values()))
    ck.cov["failing_inputs_by_finding"] = dict(stats["by_finding"])
    ck.cov["judged_by_direct_oracle"] = sum(1 for c in cases if c["judged"])
    ck.cov["traces_validated_against_impl"] = (len(cases) - sum(1 for v in (codes or {}).values() if v == 999)) if codes is not None else 0
    # every float field of an accepted row was compared, bit for bit, with Model.dec2f_exact of its literal (cmp_field);
    # a difference would have surfaced as code 100+ (C06-float-exp, fixed: violation) or 999
    ck.cov["float_literals_checked_against_dec2f_exact"] = (sum(1 for i, c in enumerate(cases) if (codes or {}).get(i, 0) < 100
                                                                  for r in c["rows"] for f in r["fields"] if f["t"] == 3) if codes is not None else 0)
    ck.cov["samples"] = [c["text"] for c in cases if c["class"] in ("valid", "batch")][:4]
    stale = [f["id"] for f in ck.findings if f.get("status") == "open" and stats["by_finding"].get(f["id"], 0) == 0]
    if stale:
        ck.notes.append("open findings that did not reproduce in this run (stale or repaired tree): %s" % ", ".join(stale))


def replay(ck, binp, ok):
    rp = json.load(open(ck.replay))
    src = os.path.join(ck.work, "replay_in.json")
    json.dump({"in": rp["in"], "mult": rp.get("mult", 1)}, open(src, "w"))
    rc, out = ck.run([binp, "replay", src], timeout=300)
    cases = [json.loads(l) for l in out.split("\n") if l.startswith('{"i"')]
    if rc != 0 or len(cases) != 1:
        ck.broken.append("harness c06 replay failed rc=%d: %s" % (rc, out[-400:]))
        return
    c = cases[0]
    ev = eval_model(ck, cases) if ok else None
    codes = ev[0] if ev is not None else None
    code = (codes or {}).get(0, 0)
    ck.log("replay input %r -> implementation err=%s rows=%s ; model code %s (%s)" % (
        c["text"], c["err"], json.dumps(c["rows"]), code, code_ids(code)))
    ck.cov["evaluations"] = 1
    stats = {"by_finding": collections.Counter(), "first": {}, "unlisted_failures": 0}
    c["oracle"] = rp.get("oracle", []) if False else []
    c["judged"] = False
    if codes is not None:
        judge(ck, cases, codes, stats)
    for fid, what in sorted(stats["first"].items()):
        ck.known_finding(fid, what)
