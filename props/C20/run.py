"""C20 - column-store sparse and skip indexes never prune a block with a match. See DESIGN.md section 4 C20 and
props/C20/NOTES.md.

Decision procedure:
  1. Coq: audit, build, re-check Props.v / Refuted.v.
  2. harness cmd/c20: corpus (replay) + generated cases on the real sparseindex code; DIRECT ORACLE = brute-force row
     matching (a fragment with a matching row must be in a returned range / must have may_be = true / canBeTrue).
  3. the four model variants (checkRangeRightBound current|repaired) x (index-bound rewriting current|repaired) are
     evaluated by coqc on the same cases; the variant the tree implements is detected from the mismatch pattern.
  4. oracle failures are classified against the findings' signatures (code below); anything else is a VIOLATION;
     model/implementation disagreement without a failing input is reported as no-failing-input-found.
"""
import ast
import glob
import json
import os
import re

import vlib
from vlib import coq_bool, coq_list

PID = "C20"
F_RB = "C20-rightbound-mark"
F_MUT = "C20-openrange-rewrites-index"
OPS = {"=": "Ceq", "!=": "Cne", "<": "Clt", "<=": "Cle", ">": "Cgt", ">=": "Cge"}


# ---------------------------------------------------------------------------------------------
# rendering of a harness case as a Coq term

def z(n):
    n = int(n)
    return "(%d)%%Z" % n if n < 0 else "%d%%Z" % n


def nat(n):
    return "%d%%nat" % int(n)


def cond_coq(c, counter):
    if c["op"] in ("and", "or"):
        return "(%s %s %s)" % ("CAnd" if c["op"] == "and" else "COr", cond_coq(c["args"][0], counter), cond_coq(c["args"][1], counter))
    if c["op"] == "in":
        return "(CIn %s [])" % nat(max(c["col"], 0))
    if c["col"] < 0:
        counter[0] += 1
        return "(CNonKey %s)" % nat(counter[0])
    return "(CAtom %s %s %s)" % (nat(c["col"]), OPS[c["op"]], z(c["enc"]))


def bound_coq(v, k):
    if k < 0:
        return "NegInf"
    if k > 0:
        return "PosInf"
    return "(Fin %s)" % z(v)


def case_coq(t, detail):
    keys = coq_list([coq_list(["None" if v is None else "(Some %s)" % z(v) for v in row]) for row in t["keys"]])
    rects = coq_list([coq_list(["(mkR %s %s true true)" % (bound_coq(r["lo"][c], r["lok"][c]), bound_coq(r["hi"][c], r["hik"][c]))
                                for c in range(len(r["lo"]))]) for r in (t["rects"] or [])])
    probes = coq_list(["(%s, %s)" % (nat(p[0]), nat(p[1])) for p in t["in"]["probes"]])
    def rg(e, c):
        return "(mkR %s %s %s %s)" % (bound_coq(e["lo"][c], e["lok"][c]), bound_coq(e["hi"][c], e["hik"][c]),
                                      coq_bool(e["li"][c]), coq_bool(e["ri"][c]))
    cbs = coq_list(["((%s, %s), %s, (%s, %s))" % (
        nat(p["s"]), nat(p["e"]),
        coq_list(["(%s, (%s, %s))" % (coq_list([rg(e, c) for c in range(len(e["lo"] or []))]), coq_bool(e["t"]), coq_bool(e["f"]))
                  for e in p["table"]]),
        z(p["final"][0]), z(p["final"][1])) for p in (t.get("cbprobes") or [])])
    scan_code = 0
    if t["scanerr"]:
        scan_code = 2 if t["scanerr"].startswith("panic") else 1
    return ("(mkC %s (%s : list key) %s %s %s %s (%s : list (nat*nat)) (%s : list (list range)) %s (%s : list ((nat*nat) * list (list range * (bool*bool)) * (Z*Z))) %s %s (%s : list (nat*nat)) (%s : list Z) (%s : list (Z*Z)))" % (
        coq_list([coq_bool(b) for b in t["isint"]]), keys, coq_list([nat(s) for s in t["in"]["sizes"]]),
        cond_coq(t["in"]["cond"], [0]), nat(t["in"]["coarse"]), nat(t["minmarks"]), probes, rects, coq_bool(detail), cbs,
        coq_bool(bool(t["conderr"])), nat(scan_code),
        coq_list(["(%s, %s)" % (nat(a), nat(b)) for a, b in t["ranges"]]),
        coq_list([z(x) for x in (t["maybe"] or [])]),
        coq_list(["(%s, %s)" % (z(a), z(b)) for a, b in (t["marks"] or [])])))


def parse_results(out):
    m = re.search(r"R\s*=\s*(.*?)\s*:\s*list", out, re.S)
    if not m:
        return None
    txt = m.group(1).replace(";", ",").replace("true", "True").replace("false", "False")
    return ast.literal_eval(txt)


# ---------------------------------------------------------------------------------------------
# input-only predicates

def atoms(c):
    if c["op"] in ("and", "or"):
        return atoms(c["args"][0]) + atoms(c["args"][1])
    return [c]


def used_keys(t):
    cols = [a["col"] for a in atoms(t["in"]["cond"]) if a["col"] >= 0]
    return max(cols) + 1 if cols else 0


def sig_mut_input(t):
    """signature of C20-openrange-rewrites-index, input part: at least three key columns are used by the condition and
    an integer column sits strictly between the first and the last used one."""
    u = used_keys(t)
    return u >= 3 and any(t["isint"][p] for p in range(1, u - 1))


def mut_evidence(t):
    """run part of the signature: the index record was rewritten by the scan, or a call panicked with an index error
    (turnOpenRangeIntoClosed reading/writing row MaxInt64 or past the packed values)."""
    return bool(t.get("mutated")) or "index out of range" in (t.get("scanerr") or "") or (-2 in (t.get("maybe") or []))


def has_null_mid_int(t):
    u = used_keys(t)
    return any(t["isint"][p] and any(row[p] is None for row in t["keys"]) for p in range(1, max(u - 1, 1)))


# ---------------------------------------------------------------------------------------------

def run_harness(ck, binp, args, timeout=1200, env=None):
    rc, out = ck.run([binp] + args, timeout=timeout, env=env)
    cases = []
    for l in out.splitlines():
        if l.startswith('{"id"'):
            try:
                cases.append(json.loads(l))
            except ValueError:
                ck.broken.append("unparsable harness line")
    return rc, cases, out


def eval_model(ck, cases, detail_ids, tag="c"):
    """returns {case index: per-variant [(mask, cover, maybe)...]} for interesting cases; None on failure"""
    shard = 150
    files = []
    for i in range(0, len(cases), shard):
        chunk = cases[i:i + shard]
        txt = ("From Coq Require Import ZArith List Bool. From OG Require Import C20.Model C20.Corr.\n"
               "Import ListNotations.\n"
               "Definition cases : list ccase := [\n%s\n].\n"
               "Definition R := Eval vm_compute in results cases.\nPrint R.\n") % ";\n".join(
                   case_coq(t, (i + j) in detail_ids) for j, t in enumerate(chunk))
        files.append(("%s%d" % (tag, i // shard), txt))
    res = {}
    outs = ck.coq_eval_many(files, timeout=900)
    for idx, (rc, o) in enumerate(outs):
        r = parse_results(o) if rc == 0 else None
        if r is None:
            ck.broken.append("model evaluation failed on shard %s%d: %s" % (tag, idx, o[-400:]))
            return None
        for k, e in r:
            res[idx * shard + k] = e
    return res


def classify(ck, cases, tag):
    """returns (variant description, list of broken-correspondence descriptions, oracle verdict counts)"""
    oracle_ids = set(i for i, t in enumerate(cases) if t["oracle"])
    res = eval_model(ck, cases, oracle_ids, tag)
    if res is None:
        return None
    # ---- variant detection
    def mask(i, v):
        e = res.get(i)
        if e is None:
            return 0
        if len(e) == 1:      # condition-error case: single entry
            return e[0][0]
        return e[v][0]

    n = len(cases)
    sig2 = [sig_mut_input(t) for t in cases]
    plain = [i for i in range(n) if not sig2[i]]
    rb_cur_mis = [i for i in plain if mask(i, 1) != 0]
    rb_rep_mis = [i for i in plain if mask(i, 3) != 0]
    var_rb = "repaired" if not rb_rep_mis else ("current" if not rb_cur_mis else None)
    base = 2 if var_rb == "repaired" else 0
    s2 = [i for i in range(n) if sig2[i]]
    norm_rep_mis = [i for i in s2 if mask(i, base + 1) != 0]

    def cur_mask(i):
        m = mask(i, base) & ~1          # the rewriting persists across the calls of one Scan: not modelled
        t = cases[i]
        if has_null_mid_int(t) or -2 in (t["maybe"] or []) or any(p["final"][0] == -2 for p in (t.get("cbprobes") or [])):
            m &= ~(2 | 16)              # packed-value addressing / panics: not modelled
        return m
    norm_cur_mis = [i for i in s2 if cur_mask(i) != 0]
    if not norm_rep_mis:
        var_norm = "repaired"
    elif not norm_cur_mis and any(mut_evidence(cases[i]) for i in s2):
        var_norm = "current"
    else:
        var_norm = None
    broken = []
    if var_rb is None:
        i = min(rb_rep_mis, key=lambda k: k)
        broken.append(("correspondence C20: the tree matches neither the current nor the repaired model of "
                       "checkRangeRightBound (first disagreeing case %d, masks %s)" % (i, [mask(i, v) for v in range(4)]), i))
    if var_norm is None and var_rb is not None:
        i = norm_rep_mis[0]
        broken.append(("correspondence C20: the tree matches neither model of the index-bound handling on a case with "
                       "an integer middle key column (case %d, masks %s)" % (i, [mask(i, v) for v in range(4)]), i))
    # variant independent bits
    for i in range(n):
        e = res.get(i)
        if e is None:
            continue
        m = e[0][0] if len(e) == 1 else min(x[0] for x in e)
        if len(e) == 1 and m & 8:
            broken.append(("correspondence C20: NewKeyCondition error/no-error differs from the model's compile on case %d" % i, i))
        elif all(x[0] & 4 for x in e):
            broken.append(("correspondence C20: CheckInRange marks differ from the model's check_in_range on case %d" % i, i))
    # ---- oracle failures
    verdicts = {"known_rb": 0, "known_mut": 0, "violation": 0}
    for i in sorted(oracle_ids):
        t = cases[i]
        e = res.get(i)
        what = "; ".join(t["oracle"][:2])
        rec = {"kind": "direct-oracle", "what": t["oracle"], "in": t["in"], "case": i, "stream": tag,
               "ranges": t["ranges"], "match": t["match"], "scanerr": t["scanerr"]}
        if sig2[i] and mut_evidence(t):
            if ck.match_finding(F_MUT):
                ck.known_finding(F_MUT, "a fragment with a matching row is pruned / the scan panics because an index value was rewritten in place")
                verdicts["known_mut"] += 1
                continue
        elif e is not None and len(e) == 4 and used_keys(t) >= 2 and \
                (e[0][0] == 0 or e[1][0] == 0) and e[2][0] != 0 and e[3][0] != 0:
            # the implementation behaves exactly as the model of today's checkRangeRightBound (returns mark) on this
            # case and differently from the repaired model (returns res)
            if ck.match_finding(F_RB):
                ck.known_finding(F_RB, "a fragment with a matching row is pruned: the accumulated mark is dropped by checkRangeRightBound")
                verdicts["known_rb"] += 1
                continue
        verdicts["violation"] += 1
        if verdicts["violation"] <= 3:
            ck.violation(rec)
    return {"rb": var_rb, "norm": var_norm, "broken": broken, "verdicts": verdicts,
            "mismatch_counts": {"rb_current": len(rb_cur_mis), "rb_repaired": len(rb_rep_mis),
                                "norm_repaired": len(norm_rep_mis), "norm_current": len(norm_cur_mis)}}


def main(ck):
    ck.assumptions += [
        "typed key values are compared by the harness through order-preserving encodings into Z (integers as themselves, "
        "floats/strings/booleans by dense rank within the case; no NaN, no -0.0); literals have the column's type",
        "rows handed to PKIndexWriterImpl.Build are sorted lexicographically with nulls greatest, i.e. in the order in "
        "which PKIndexReaderImpl interprets the index (see NOTES.md: the writer-side sort order of nulls is not covered)",
        "row semantics of the condition: a null satisfies no comparison (lib/binaryfilterfunc drops nulls for every operator)",
    ]
    ck.cov["trusted_base"] = ["Coq 8.16.1 kernel + vm_compute (cases evaluation, Refuted witnesses, Examples)",
                              "no axioms (Print Assumptions: closed)", "Go harness cmd/c20 (generator, brute-force oracle, "
                              "order-preserving encodings)", "python driver props/C20/run.py (signatures, variant detection)"]
    ck.coq_audit(["C20"])
    ok = ck.coq_build(["C20/Props.vo", "C20/Refuted.vo", "C20/Corr.vo"])
    if ok:
        ck.coq_props(["C20/Props.v", "C20/Refuted.v"])
    binp = ck.go_build("./cmd/c20", "c20")
    if not binp or not ok:
        return
    # ---- cases: corpus / replay first
    if getattr(ck, "replay", None):
        files = [os.path.abspath(ck.replay)]
        n = 0
    else:
        files = sorted(glob.glob(os.path.join(ck.verif, "corpus", PID, "*.json")))
        n = 1500 if ck.tier == "quick" else 20000
    cases = []
    if files:
        rc, cs, out = run_harness(ck, binp, ["replay"] + files)
        if rc != 0 or len(cs) != len(files):
            ck.broken.append("harness c20 replay failed rc=%d cases=%d/%d: %s" % (rc, len(cs), len(files), out[-400:]))
            return
        for t, f in zip(cs, files):
            t["corpus"] = os.path.basename(f)
        cases += cs
    ncorpus = len(cases)
    if n:
        rc, cs, out = run_harness(ck, binp, ["gen", str(n)])
        if rc != 0 or len(cs) != n:
            ck.broken.append("harness c20 failed rc=%d cases=%d/%d: %s" % (rc, len(cs), n, out[-400:]))
            return
        cases += cs
    r = classify(ck, cases, "c")
    if r is None:
        return
    ck.notes.append("variant detected: checkRangeRightBound=%s, index-bound rewriting=%s; mismatch counts %s; oracle verdicts %s" % (
        r["rb"], r["norm"], r["mismatch_counts"], r["verdicts"]))
    ck.log(ck.notes[-1])
    # stale findings (open entries that no longer reproduce) are reported, not failed
    for fid, key in ((F_RB, "known_rb"), (F_MUT, "known_mut")):
        if ck.match_finding(fid) and r["verdicts"][key] == 0:
            ck.notes.append("open finding %s did not reproduce in this run (stale?)" % fid)
    if r["broken"] and r["verdicts"]["violation"] == 0:
        # a disagreement without a failing input: search a fresh, larger stream with the direct oracle before giving up
        rc, cs2, out = run_harness(ck, binp, ["gen", str(max(3 * n, 1500))], env={"VERIF_SEED": str(ck.seed + 1)})
        bad = [t for t in cs2 if t["oracle"]]
        if bad:
            r2 = classify(ck, cs2, "x")
            if r2 and r2["verdicts"]["violation"] == 0:
                pass   # every failing input of the fresh stream is inside a known signature: still a broken correspondence
        for msg, i in r["broken"][:3]:
            ck.broken.append(msg)
        i = r["broken"][0][1]
        ck.nofail_detail = {"kind": "correspondence", "explanation": r["broken"][0][0], "in": cases[i]["in"],
                            "implementation": {k: cases[i][k] for k in ("conderr", "scanerr", "ranges", "maybe", "marks", "mutated")}}
    # ---- coverage
    hist = {"key_columns": {}, "types": {}, "ops": {}, "strategy": {"binary": 0, "exclusion": 0}, "with_nulls": 0,
            "cond_errors": {}, "scan_errors": {}, "fragments": {}, "tags": {}}
    nontriv = set()
    for t in cases:
        i = t["in"]
        hist["key_columns"][len(i["types"])] = hist["key_columns"].get(len(i["types"]), 0) + 1
        for ty in i["types"]:
            hist["types"][ty] = hist["types"].get(ty, 0) + 1
        for a in atoms(i["cond"]):
            hist["ops"][a["op"]] = hist["ops"].get(a["op"], 0) + 1
        if t["conderr"]:
            k = t["conderr"][:40]
            hist["cond_errors"][k] = hist["cond_errors"].get(k, 0) + 1
        else:
            hist["strategy"]["binary" if t["binary"] else "exclusion"] += 1
        if t["scanerr"]:
            k = t["scanerr"][:40]
            hist["scan_errors"][k] = hist["scan_errors"].get(k, 0) + 1
        if any(v is None for row in t["keys"] for v in row):
            hist["with_nulls"] += 1
        b = min(t["nfrag"] // 4 * 4, 16)
        hist["fragments"]["%d+" % b] = hist["fragments"].get("%d+" % b, 0) + 1
        if i.get("tag"):
            hist["tags"][i["tag"]] = hist["tags"].get(i["tag"], 0) + 1
        if t["nontrivial"]:
            nontriv.add(json.dumps([i["types"], i["rows"], i["sizes"], i["cond"]], sort_keys=True))
    ck.cov["evaluations"] = len(cases)
    ck.cov["corpus_cases"] = ncorpus
    ck.cov["distinct_nontrivial"] = len(nontriv)
    ck.cov["rule"] = ("sorted key records (1..3 key columns of int/float/string/bool, duplicates, nulls, boundary integers, fragment "
                      "sizes fixed-with-short-tail or arbitrary) x condition trees (= != < <= > >= on key and non-key columns, "
                      "AND/OR, parentheses, flipped literals, literals aimed at fragment boundary keys, optional time bounds) x "
                      "reader settings; non-trivial = the condition uses a key column, at least one fragment contains a matching "
                      "row and at least one fragment is pruned; distinct = different (types, rows, sizes, condition)")
    ck.cov["input_histogram"] = hist
    ck.cov["variant_detected"] = {"checkRangeRightBound": r["rb"], "index_bound_rewriting": r["norm"]}
    ck.cov["oracle_verdicts"] = r["verdicts"]
    ck.cov["model_mismatch_counts"] = r["mismatch_counts"]
    ok_cases = len(cases) - len(set(i for _, i in r["broken"]))
    ck.cov["traces_validated_against_impl"] = ok_cases if not r["broken"] else 0
    ck.cov["samples"] = [{"types": t["in"]["types"], "rows": t["in"]["rows"][:6], "sizes": t["in"]["sizes"], "cond": t["in"]["cond"],
                          "ranges": t["ranges"], "match": t["match"]} for t in cases[ncorpus:ncorpus + 2]]
