"""C20 - column-store sparse and skip indexes never prune a block with a match. See DESIGN.md section 4 C20 and
props/C20/NOTES.md (round 4: writer's order of null keys + null index cell readings, tokenizer tie, min-max obligations).

Decision procedure:
  1. Coq: audit, build, re-check Props.v / Refuted.v.
  2. harness cmd/c20: corpus (replay) + generated cases on the real sparseindex code; DIRECT ORACLE = brute-force row
     matching (a fragment with a matching row must be in a returned range / must have may_be = true / canBeTrue).
  3. the four model variants (checkRangeRightBound current|repaired) x (index-bound rewriting current|repaired) are
     evaluated by coqc on the same cases; the variant the tree implements is detected from the mismatch pattern.
  4. oracle failures are classified against the findings' signatures (code below); anything else is a VIOLATION;
     model/implementation disagreement without a failing input is reported as no-failing-input-found.
"""
import ast
import glob
import json
import os
import re

import vlib
from vlib import coq_bool, coq_list

PID = "C20"
F_RB = "C20-rightbound-mark"
F_MUT = "C20-openrange-rewrites-index"
F_GRAM = "C20-bloom-gram-phrase"
F_MATCHEQ = "C20-matchphrase-key-as-equality"
F_LIKE = "C20-like-on-key-panics"
F_NULL = "C20-null-key-sort-order"
F_VERT = "C20-vertical-filter-uncovered-column"
F_NA = "C20-bloom-nonascii-token-boundary"
F_LIT = "C20-literal-type-mismatch"
F_GRP = "C20-null-key-grouped-index"
F_TRUNC = "C20-bloom-writer-truncated-utf8-panic"
F_TOK = "C20-bloom-writer-empty-tokens"
STROPS = ("match", "ipinrange", "like", "matchop")
OPS = {"=": "Ceq", "!=": "Cne", "<": "Clt", "<=": "Cle", ">": "Cgt", ">=": "Cge"}


# ---------------------------------------------------------------------------------------------
# rendering of a harness case as a Coq term

def z(n):
    n = int(n)
    return "(%d)%%Z" % n if n < 0 else "%d%%Z" % n


def nat(n):
    return "%d%%nat" % int(n)


def cond_coq(c, counter, strmode="true"):
    """strmode: how MATCHPHRASE / IPINRANGE / LIKE / MATCH on a key column are rendered: "true" = the predicate may be true
    anywhere (an AlwaysTrue element, the repaired reading), "eq" = MATCHPHRASE / IPINRANGE as the equality range [v,v]
    (today's genRPNElementByOp)."""
    if c["op"] in ("and", "or"):
        return "(%s %s %s)" % ("CAnd" if c["op"] == "and" else "COr", cond_coq(c["args"][0], counter, strmode), cond_coq(c["args"][1], counter, strmode))
    if c["op"] == "in":
        return "(CIn %s [])" % nat(max(c["col"], 0))
    if c["col"] < 0 or (c["op"] in STROPS and strmode == "true"):
        counter[0] += 1
        return "(CNonKey %s)" % nat(counter[0])
    if c["op"] in ("match", "ipinrange"):
        return "(CAtom %s Ceq %s)" % (nat(c["col"]), z(c["enc"]))
    if c.get("litty"):
        # a numeric literal of another type than the key column's. strmode "litcur": today's genRPNElementByVal stores the literal's
        # bits as a value of the column's type (enccur; None = NaN, rendered as a value above every key); otherwise (repaired,
        # fix6.patch): the literal converted exactly when it is a value of the column's type, else an AlwaysTrue element
        if strmode == "litcur":
            return "(CAtom %s %s %s)" % (nat(c["col"]), OPS[c["op"]], z(c["enccur"] if c.get("enccur") is not None else 2 ** 62))
        if c.get("enc") is None:
            counter[0] += 1
            return "(CNonKey %s)" % nat(counter[0])
    return "(CAtom %s %s %s)" % (nat(c["col"]), OPS[c["op"]], z(c["enc"]))


def bound_coq(v, k):
    if k < 0:
        return "NegInf"
    if k > 0:
        return "PosInf"
    return "(Fin %s)" % z(v)


def case_coq(t, detail, strmode="true"):
    keys = coq_list([coq_list(["None" if v is None else "(Some %s)" % z(v) for v in row]) for row in t["keys"]])
    rects = coq_list([coq_list(["(mkR %s %s true true)" % (bound_coq(r["lo"][c], r["lok"][c]), bound_coq(r["hi"][c], r["hik"][c]))
                                for c in range(len(r["lo"]))]) for r in (t["rects"] or [])])
    probes = coq_list(["(%s, %s)" % (nat(p[0]), nat(p[1])) for p in t["in"]["probes"]])
    def rg(e, c):
        return "(mkR %s %s %s %s)" % (bound_coq(e["lo"][c], e["lok"][c]), bound_coq(e["hi"][c], e["hik"][c]),
                                      coq_bool(e["li"][c]), coq_bool(e["ri"][c]))
    cbs = coq_list(["((%s, %s), %s, (%s, %s))" % (
        nat(p["s"]), nat(p["e"]),
        coq_list(["(%s, (%s, %s))" % (coq_list([rg(e, c) for c in range(len(e["lo"] or []))]), coq_bool(e["t"]), coq_bool(e["f"]))
                  for e in p["table"]]),
        z(p["final"][0]), z(p["final"][1])) for p in (t.get("cbprobes") or [])])
    scan_code = 0
    if t["scanerr"]:
        scan_code = 2 if t["scanerr"].startswith("panic") else 1
    return ("(mkC %s (%s : list Z) (%s : list key) %s %s %s %s (%s : list (nat*nat)) (%s : list (list range)) %s (%s : list ((nat*nat) * list (list range * (bool*bool)) * (Z*Z))) %s %s (%s : list (nat*nat)) (%s : list Z) (%s : list (Z*Z)))" % (
        coq_list([coq_bool(b) for b in t["isint"]]), coq_list([z(x) for x in t["pads"]]), keys, coq_list([nat(s) for s in t["in"]["sizes"]]),
        cond_coq(t.get("effcond") or t["in"]["cond"], [0], strmode), nat(t["in"]["coarse"]), nat(t["minmarks"]), probes, rects, coq_bool(detail), cbs,
        coq_bool(bool(t["conderr"])), nat(scan_code),
        coq_list(["(%s, %s)" % (nat(a), nat(b)) for a, b in t["ranges"]]),
        coq_list([z(x) for x in (t["maybe"] or [])]),
        coq_list(["(%s, %s)" % (z(a), z(b)) for a, b in (t["marks"] or [])])))


def parse_results(out):
    m = re.search(r"R\s*=\s*(.*?)\s*:\s*list", out, re.S)
    if not m:
        return None
    txt = m.group(1).replace(";", ",").replace("true", "True").replace("false", "False")
    return ast.literal_eval(txt)


# ---------------------------------------------------------------------------------------------
# input-only predicates

def atoms(c):
    if c["op"] in ("and", "or"):
        return atoms(c["args"][0]) + atoms(c["args"][1])
    return [c]


def used_keys(t):
    cols = [a["col"] for a in atoms(t.get("effcond") or t["in"]["cond"]) if a["col"] >= 0]
    return max(cols) + 1 if cols else 0


def sig_mut_input(t):
    """signature of C20-openrange-rewrites-index, input part: at least three key columns are used by the condition and
    an integer column sits strictly between the first and the last used one."""
    u = used_keys(t)
    return u >= 3 and any(t["isint"][p] for p in range(1, u - 1))


def mut_evidence(t):
    """run part of the signature: the index record was rewritten by the scan, or a call panicked with an index error
    (turnOpenRangeIntoClosed reading/writing row MaxInt64 or past the packed values)."""
    return bool(t.get("mutated")) or "index out of range" in (t.get("scanerr") or "") or (-2 in (t.get("maybe") or []))


def has_null_mid_int(t):
    u = used_keys(t)
    return any(t["isint"][p] and any(row[p] is None for row in t["keys"]) for p in range(1, max(u - 1, 1)))



# ---------------------------------------------------------------------------------------------
# bloom-filter skip index stream

def batoms(c):
    if c["op"] in ("and", "or"):
        return batoms(c["args"][0]) + batoms(c["args"][1])
    return [c]


def bloom_tree(c, leaf, counter):
    """render the condition as an `sk` term / evaluate it; leaf(i, atom) handles the i-th atom (left to right)"""
    if c["op"] in ("and", "or"):
        a = bloom_tree(c["args"][0], leaf, counter)
        b = bloom_tree(c["args"][1], leaf, counter)
        return ("and" if c["op"] == "and" else "or", a, b)
    i = counter[0]
    counter[0] += 1
    return ("atom", leaf(i, c))


def tree_coq(t):
    if t[0] == "atom":
        return "(SAtom %s)" % t[1]
    return "(%s %s %s)" % ("SAnd" if t[0] == "and" else "SOr", tree_coq(t[1]), tree_coq(t[2]))


def tree_fold(t, f):
    if t[0] == "atom":
        return f(t[1])
    a, b = tree_fold(t[1], f), tree_fold(t[2], f)
    return (a and b) if t[0] == "and" else (a or b)


def bloom_seg_tree(t, seg, corrected=False, vmode="repaired"):
    """per-segment expression with the measured single-predicate hits. corrected (True / "gram+nonascii"): a gram /
    token-less phrase (finding C20-bloom-gram-phrase) counts as hit where a row of the segment matches that predicate; with
    "gram+nonascii" so does a phrase that matches a value holding non-ASCII bytes."""
    f0 = t["schema"][0]

    def leaf(i, a):
        ob = t["atoms"][i]
        fc = a["col"] == f0
        im = a["op"] == "match"
        h = True
        if ob.get("hits"):
            h = ob["hits"][seg] != 0
            if corrected and (ob.get("gram") or ob.get("notoken")) and ob["amatch"][seg]:
                h = True
            if corrected == "all" and ob["amatch"][seg]:
                # finding C20-bloom-writer-empty-tokens: the writer did not split the values at all
                h = True
            if corrected == "gram+nonascii" and ob["amatch"][seg] and (ob.get("nonascii") or [False] * (seg + 1))[seg]:
                # finding C20-bloom-nonascii-token-boundary: the phrase matches a value that holds non-ASCII bytes; the writer's
                # byte-level tokens of such a value need not be the tokens the row filter / the reader see
                h = True
        if vmode == "current" and t["in"].get("vertical") and im and not fc:
            # today's VerticalFilterReader.hitExpr: a MATCHPHRASE on a column outside splitMap has no hashes -> "absent"
            # (the hashes are keyed by the phrase text only: a phrase that also occurs on the filter's column borrows its hashes)
            same = [o for o, b in zip(t["atoms"], batoms(t["in"]["cond"])) if b["op"] == "match" and b["col"] == f0 and b["lit"] == a["lit"]]
            h = (same[0]["hits"][seg] != 0) if same and same[0].get("hits") else False
            return (True, True, a["col"] in t["schema"], h)
        return (fc, im, a["col"] in t["schema"], h)
    return bloom_tree(t["in"]["cond"], leaf, [0])


def bloom_predict(tree):
    whole = tree_fold(tree, lambda a: a[3] if (a[0] and a[1]) else True)
    return tree_fold(tree, lambda a: whole if a[2] else True)


def ends_truncated(b):
    """the byte string ends inside a multi-byte character, as SimpleUtf8Tokenizer steps through it (lead byte classes
    <= 0xdf: 2 bytes, <= 0xef: 3, <= 0xf7: 4)"""
    i = 0
    while i < len(b):
        x = b[i]
        need = 1 if x < 0x80 or x > 0xf7 else (2 if x <= 0xdf else (3 if x <= 0xef else 4))
        if i + need > len(b):
            return True
        i += need
    return False


def has_truncated_value(t):
    chop = t["in"].get("chop") or []
    for i, v in enumerate(t["in"]["content"]):
        if v is not None and i < len(chop) and 0 < chop[i] < len(v.encode("utf-8")):
            if ends_truncated(v.encode("utf-8")[:-chop[i]]):
                return True
    return False


def bloom_stream(ck, cases):
    """direct oracle + model correspondence for the bloom cases; returns (verdicts, broken list)"""
    verdicts = {"known_gram": 0, "known_vert": 0, "known_nonascii": 0, "violation": 0}
    broken = []
    with_reader = [t for t in cases if t["schema"] and not t["err"] and all(k in (0, 1) for k in t["kept"])]
    vert = [t for t in with_reader if t["in"].get("vertical")]

    def agrees(t, vmode):
        return all(bloom_predict(bloom_seg_tree(t, sgi, vmode=vmode)) == (t["kept"][sgi] == 1) for sgi in range(t["segcnt"]))
    if all(agrees(t, "repaired") for t in vert):
        vmode = "repaired"
    elif all(agrees(t, "current") for t in vert):
        vmode = "current"
    else:
        vmode = "repaired"   # neither: the coqc comparison below reports the disagreement
    verdicts["vertical_reader"] = vmode if vert else None
    # model correspondence through coqc
    shard = 400
    files = []
    for i in range(0, len(with_reader), shard):
        chunk = with_reader[i:i + shard]
        items = []
        for t in chunk:
            segs = []
            for sgi in range(t["segcnt"]):
                tr = bloom_seg_tree(t, sgi, vmode=vmode)
                term = tree_coq(("atom", None)) if False else tree_coq(_coq_atoms(tr))
                segs.append("(%s, %s)" % (term, coq_bool(t["kept"][sgi] == 1)))
            items.append(coq_list(segs))
        txt = ("From Coq Require Import List Bool. From OG Require Import C20.BloomModel C20.Corr.\nImport ListNotations.\n"
               "Definition cases : list (list (sk katom * bool)) := [\n%s\n].\n"
               "Definition R := Eval vm_compute in bloom_results cases.\nPrint R.\n") % ";\n".join(items)
        files.append(("b%d" % (i // shard), txt))
    mism = {}
    for idx, (rc, o) in enumerate(ck.coq_eval_many(files, timeout=900)):
        r = parse_results(o) if rc == 0 else None
        if r is None:
            broken.append(("model evaluation failed on bloom shard %d: %s" % (idx, o[-300:]), None))
            continue
        for k, pred in r:
            mism[id(with_reader[idx * shard + k])] = pred
    for t in cases:
        bad = bool(t["oracle"])
        if bad and (t["err"] or "").startswith("writer panic: runtime error: index out of range") and "content" in t["in"]["indexed"] and has_truncated_value(t):
            # signature of C20-bloom-writer-truncated-utf8-panic: the indexed column holds a value that ends inside a multi-byte
            # character and GenBloomFilterData panics with an index error
            if ck.match_finding(F_TRUNC):
                ck.known_finding(F_TRUNC, "BloomFilterWriter.GenBloomFilterData panics on a value that ends inside a multi-byte character")
                verdicts["known_trunc"] = verdicts.get("known_trunc", 0) + 1
                continue
        if bad and t["in"].get("viabuilder") and t["schema"] and not t["err"] and \
                any(ob["col"] == t["schema"][0] and ob["op"] == "match" for ob in t["atoms"]) and \
                all(bloom_predict(bloom_seg_tree(t, sgi, corrected="all")) for sgi in range(t["segcnt"]) if t["match"][sgi]):
            # signature of C20-bloom-writer-empty-tokens: the writer was built by IndexWriterBuilder.NewIndexWriters from the index
            # relation of CREATE MEASUREMENT (no tokens option), the condition has a MATCHPHRASE on the file's column, and the pruned
            # matching segments are exactly explained by counting those predicates as hits where a row matches
            if ck.match_finding(F_TOK):
                ck.known_finding(F_TOK, "a segment with a matching row is pruned: the bloom-filter writer a flush builds for an index without a tokens option does not split the values, the readers split the phrase by the default characters")
                verdicts["known_tokens"] = verdicts.get("known_tokens", 0) + 1
                continue
        if bad:
            explained = False
            if t["schema"] and not t["err"]:
                # does the finding's signature explain every pruned matching segment?
                explained = any((ob.get("gram") or ob.get("notoken")) and ob["col"] == t["schema"][0] for ob in t["atoms"]) and \
                    all(bloom_predict(bloom_seg_tree(t, sgi, corrected=True)) for sgi in range(t["segcnt"]) if t["match"][sgi])
            if not explained and t["in"].get("vertical") and t["schema"] and not t["err"] and vmode == "current" and \
                    any(b["op"] == "match" and b["col"] != t["schema"][0] for b in batoms(t["in"]["cond"])) and \
                    all(bloom_predict(bloom_seg_tree(t, sgi, vmode="repaired")) for sgi in range(t["segcnt"]) if t["match"][sgi]):
                if ck.match_finding(F_VERT):
                    ck.known_finding(F_VERT, "a segment with a matching row is pruned by the detached (vertical) filter reader: a MATCHPHRASE on a column the filter does not cover evaluates to 'absent'")
                    verdicts["known_vert"] += 1
                    continue
            if not explained and t["schema"] and not t["err"]:
                f0 = t["schema"][0]
                bad = [sgi for sgi in range(t["segcnt"]) if t["match"][sgi] and t["kept"][sgi] == 0]
                na_involved = any(ob["col"] == f0 and ob["op"] == "match" and any((ob.get("nonascii") or [])[sgi:sgi + 1] == [True] and ob["amatch"][sgi] for sgi in bad)
                                  for ob in t["atoms"])
                if na_involved and all(bloom_predict(bloom_seg_tree(t, sgi, corrected="gram+nonascii")) for sgi in range(t["segcnt"]) if t["match"][sgi]):
                    if ck.match_finding(F_NA):
                        ck.known_finding(F_NA, "a segment with a matching row is pruned: the phrase matches a value with non-ASCII text, which the writer tokenizes byte-wise (a multi-byte character glues its neighbours into one token) while the row filter and the reader take every non-ASCII byte for a token boundary")
                        verdicts["known_nonascii"] += 1
                        continue
            if explained and ck.match_finding(F_GRAM):
                ck.known_finding(F_GRAM, "a segment with a matching row is pruned: the reader looks up a multi-token gram hash (or no token) that the writer never inserts")
                verdicts["known_gram"] += 1
                continue
            verdicts["violation"] += 1
            if verdicts["violation"] <= 3:
                ck.violation({"kind": "direct-oracle", "what": t["oracle"][:4], "in": t["in"], "case": t["bid"], "stream": "bloom",
                              "kept": t["kept"], "ranges": t["ranges"], "match": t["match"], "schema": t["schema"], "err": t["err"]})
        elif id(t) in mism:
            broken.append(("correspondence C20 bloom: MayBeInFragment of the compound condition differs from the model's "
                           "expression evaluation over the measured single-predicate hits (case %d: model %s, implementation %s)"
                           % (t["bid"], mism[id(t)], t["kept"]), t))
    return verdicts, broken


def tok_stream(ck, bcases, splitbytes):
    """tokenizer tie: TokModel.tokens / TokModel.finder against the real SimpleTokenizer / SimpleTokenFinder on the strings
    of the bloom cases; the writer inserts the byte-level tokens (always for ASCII values)."""
    vals, pairs, fixed, uvals = {}, {}, [], {}
    writer = {"ascii_bytewise": 0, "ascii_other": 0, "nonascii_bytewise": 0, "nonascii_other": 0}
    for t in bcases:
        tk = t.get("tok")
        if not tk:
            continue
        for v in tk["vals"]:
            if v.get("skip"):
                continue
            if not v["realok"]:
                ck.broken.append("tokenizer tie: the real SimpleTokenizer does not yield the hashes of the maximal runs of non-split bytes "
                                 "(TokModel.tokens) for the value %s" % v["v"])
                return None
            writer[("ascii_" if v["ascii"] else "nonascii_") + ("bytewise" if v["writerbytewise"] else "other")] += 1
            vals[json.dumps(v["v"])] = v["toks"]
            if "utoks" in v:
                if not v["urealok"]:
                    ck.broken.append("tokenizer tie: the real SimpleUtf8Tokenizer does not yield the hashes of the UTF-8 aware tokens of "
                                     "UtfTok.utokens for the value %s%s" % (v["v"], " (it panicked)" if v.get("upanic") else ""))
                    return None
                if not v["writerutf8"]:
                    ck.broken.append("tokenizer tie: the filter data of BloomFilterWriter.GenBloomFilterData differs from the data of the UTF-8 "
                                     "aware tokens for the value %s: C20_bloom_skip_sound_utf8 no longer describes the writer" % v["v"])
                    return None
                uvals[json.dumps(v["v"])] = v["utoks"]
        for q in tk["pairs"]:
            pairs[json.dumps([q["p"], q["v"]])] = q["m"]
        if t.get("bid") == 0 and not t.get("corpus"):
            fixed = [json.dumps([q["p"], q["v"]]) for q in tk["pairs"][-18:]]
    if writer["ascii_other"]:
        ck.broken.append("tokenizer tie: for an ASCII value the filter data of BloomFilterWriter.GenBloomFilterData differs from the data of "
                         "the byte-level tokens (TokModel.tokens): the premise-free theorem C20_bloom_skip_sound_ascii no longer describes the writer")
    if not vals or not splitbytes:
        return {"values": 0, "pairs": 0, "writer": writer}
    nl = lambda xs: "(" + coq_list(["%d" % x for x in xs]) + " : list N)"
    # quick tier: a deterministic sample (half non-ASCII strings, two thirds matching pairs), thorough: 12x as many, in shards
    capv, capp = (500, 900) if ck.tier == "quick" else (6000, 10800)

    def mix(items, isascii, cap):
        a = sorted([kv for kv in items if isascii(kv)], key=lambda kv: kv[0])
        b = sorted([kv for kv in items if not isascii(kv)], key=lambda kv: kv[0])
        b = b[:cap // 2]
        return b + a[:cap - len(b)]
    vl = mix(vals.items(), lambda kv: all(x < 128 for x in json.loads(kv[0])), capv)
    pl = mix([kv for kv in pairs.items() if kv[1]], lambda kv: all(x < 128 for x in json.loads(kv[0])[1]), capp * 2 // 3)
    pl += mix([kv for kv in pairs.items() if not kv[1]], lambda kv: all(x < 128 for x in json.loads(kv[0])[1]), capp - len(pl))
    have = set(k for k, _ in pl)
    pl += [(k, pairs[k]) for k in fixed if k not in have]
    files, spans = [], []
    nsh = max((len(vl) + 499) // 500, (len(pl) + 899) // 900, 1)
    for sh in range(nsh):
        v0, p0 = sh * 500, sh * 900
        vs, ps = vl[v0:v0 + 500], pl[p0:p0 + 900]
        txt = ("From Coq Require Import List Bool Arith NArith. From OG Require Import C20.Corr.\nImport ListNotations.\nOpen Scope N_scope.\n"
               "Definition R := Eval vm_compute in tok_results %s\n %s\n %s.\nPrint R.\n") % (
            nl(splitbytes),
            "(" + coq_list(["(%s, (%s : list (list N)))" % (nl(json.loads(k)), coq_list([nl(tk_) for tk_ in v])) for k, v in vs]) + " : list (list N * list (list N)))",
            "(" + coq_list(["(%s, %s, %s)" % (nl(json.loads(k)[0]), nl(json.loads(k)[1]), coq_bool(v)) for k, v in ps]) + " : list (list N * list N * bool))")
        files.append(("tok%d" % sh, txt))
        spans.append((v0, p0))
    bad_v, bad_p = [], []
    for (rc, o), (v0, p0) in zip(ck.coq_eval_many(files, timeout=600), spans):
        m = re.search(r"R\s*=\s*\((.*?)\)\s*:\s*list nat \* list nat", o, re.S) if rc == 0 else None
        if not m:
            ck.broken.append("tokenizer tie: model evaluation failed: %s" % o[-300:])
            return None
        lists = re.findall(r"\[([^\]]*)\]", m.group(1))
        if len(lists) != 2:
            ck.broken.append("tokenizer tie: unparsable model output: %s" % o[-300:])
            return None
        bad_v += [v0 + int(x) for x in re.findall(r"\d+", lists[0])]
        bad_p += [p0 + int(x) for x in re.findall(r"\d+", lists[1])]
    # UTF-8 aware tokens
    ul = mix(uvals.items(), lambda kv: all(x < 128 for x in json.loads(kv[0])), capv)
    ufiles = []
    for sh in range((len(ul) + 499) // 500):
        us = ul[sh * 500:(sh + 1) * 500]
        txt = ("From Coq Require Import List Bool Arith NArith. From OG Require Import C20.Corr.\nImport ListNotations.\nOpen Scope N_scope.\n"
               "Definition R := Eval vm_compute in utok_results %s\n %s.\nPrint R.\n") % (
            nl(splitbytes),
            "(" + coq_list(["(%s, (%s : list (list N)))" % (nl(json.loads(k)), coq_list([nl(tk_) for tk_ in v])) for k, v in us]) + " : list (list N * list (list N)))")
        ufiles.append(("utok%d" % sh, txt))
    bad_u = []
    for sh, (rc, o) in enumerate(ck.coq_eval_many(ufiles, timeout=600)):
        m = re.search(r"R\s*=\s*\[([^\]]*)\]\s*:\s*list nat", o, re.S) if rc == 0 else None
        if not m:
            ck.broken.append("tokenizer tie (UTF-8): model evaluation failed: %s" % o[-300:])
            return None
        bad_u += [sh * 500 + int(x) for x in re.findall(r"\d+", m.group(1))]
    if bad_u:
        ck.broken.append("correspondence C20 tokenizer: UtfTok.utokens differs from the real SimpleUtf8Tokenizer's tokens for the value bytes %s" % ul[bad_u[0]][0])
    if bad_v:
        ck.broken.append("correspondence C20 tokenizer: TokModel.tokens differs from the real SimpleTokenizer's tokens for the value bytes %s" % vl[bad_v[0]][0])
    if bad_p:
        ck.broken.append("correspondence C20 tokenizer: TokModel.finder differs from the real SimpleTokenFinder on (phrase, value) = %s (real answer %s)" % (pl[bad_p[0]][0], pl[bad_p[0]][1]))
    return {"values": len(vl), "utf8_values": len(ul), "utf8_values_valid": sum(1 for t in bcases for v in (t.get("tok") or {}).get("vals", []) if v.get("valid") and not v.get("skip")),
            "pairs": len(pl), "pairs_matching": sum(1 for _, v in pl if v), "writer": writer,
            "ascii_values": sum(1 for k, _ in vl if all(x < 128 for x in json.loads(k)))}


def multi_stream(ck, binp):
    """the reader above the single indexes: engine.NewAttachedIndexReader(...).Next() over several data files with primary
    index + bloom filter; direct oracle (every fragment with a matching row is delivered) + the model of Multi.v run on the
    measured answers of the two layers (same files delivered, same ranges, same batches)"""
    n = 300 if ck.tier == "quick" else 4000
    rc, cs, out = run_harness(ck, binp, ["multi", str(n)], prefixes=('{"mid"',))
    if rc != 0 or len(cs) != n:
        ck.broken.append("harness c20 multi failed rc=%d cases=%d/%d: %s" % (rc, len(cs), n, out[-400:]))
        return
    viol = 0
    for t in cs:
        if t["oracle"]:
            viol += 1
            if viol <= 3:
                ck.violation({"kind": "direct-oracle", "stream": "multi", "what": t["oracle"][:4], "in": t["in"], "case": t["mid"],
                              "files": t["files"], "batches": t["batches"]})
    good = [t for t in cs if not t["err"]]
    rng = lambda rs: coq_list(["(%s, %s)" % (nat(a), nat(b)) for a, b in rs])
    shard, files = 300, []
    for i in range(0, len(good), shard):
        items = []
        for t in good[i:i + shard]:
            fs = coq_list(["(%s, %s)" % (rng(f["pk"]), coq_list([coq_bool(k == 1) for k in f["keep"]])) for f in t["files"]])
            batch = "(Some %s)" % nat(t["in"]["batchcount"]) if t["in"]["readbatch"] else "None"
            impl = coq_list([coq_list(["(%s, %s)" % (nat(fi), rng(t["files"][fi]["selected"])) for fi in b]) for b in t["batches"]])
            items.append("((%s : list (list (nat*nat) * list bool)), (%s : option nat), (%s : list (list (nat * list (nat*nat)))))" % (fs, batch, impl))
        txt = ("From Coq Require Import List Bool Arith. From OG Require Import C20.Corr.\nImport ListNotations.\n"
               "Definition R := Eval vm_compute in multi_results [\n%s\n].\nPrint R.\n") % ";\n".join(items)
        files.append(("m%d" % (i // shard), txt))
    mism = []
    for idx, (rc, o) in enumerate(ck.coq_eval_many(files, timeout=600)):
        m = re.search(r"R\s*=\s*\[([^\]]*)\]", o, re.S) if rc == 0 else None
        if not m:
            ck.broken.append("multi-file stream: model evaluation failed: %s" % o[-300:])
            return
        mism += [good[idx * shard + int(x)] for x in re.findall(r"\d+", m.group(1))]
    if mism and not viol:
        t = mism[0]
        ck.broken.append("correspondence C20 attachedIndexReader.Next: the files / ranges / batches delivered differ from the model of "
                         "Multi.v run on the measured answers of the primary-key scan and the skip index (case %d: batches %s)" % (t["mid"], t["batches"]))
        if not getattr(ck, "nofail_detail", None):
            ck.nofail_detail = {"kind": "correspondence", "stream": "multi", "in": t["in"], "files": t["files"], "batches": t["batches"]}
    ck.cov["attached_reader_multi_file"] = {
        "evaluations": len(cs), "nontrivial": sum(1 for t in cs if t["nontrivial"]), "with_skip_index": sum(1 for t in cs if t["hassk"]),
        "files_emptied_by_skip_index_only": sum(1 for t in cs for f in t["files"] if f["pk"] and not f["selected"]),
        "batched": sum(1 for t in cs if t["in"]["readbatch"]), "oracle_failures": viol, "model_mismatches": len(mism),
        "rule": "2..6 attached data files (rows in the flush sort's order, 1..4 rows per fragment, rare words so that the bloom filter empties whole "
                "files the primary index kept) x condition trees over the key, MATCHPHRASE on the indexed and on a non-indexed column x batch settings; "
                "non-trivial = some fragment matches and some fragment is not delivered"}


def grouped_stream(ck, binp):
    """the primary index of the production attached flush (real sortRecord through a hook): direct oracle on segments + the model
    of Grouped.v under two readings of a null index cell (-infinity = repaired, pad value = the reading a93f46a applies to
    every index). Fails closed: the evaluator must answer for every case."""
    n = 400 if ck.tier == "quick" else 5000
    rc, cs, out = run_harness(ck, binp, ["grouped", str(n)], prefixes=('{"gid"',))
    if rc != 0 or len(cs) != n:
        ck.broken.append("harness c20 grouped failed rc=%d cases=%d/%d: %s" % (rc, len(cs), n, out[-400:]))
        return
    rng = lambda rs: coq_list(["(%s, %s)" % (nat(a), nat(b)) for a, b in rs])
    shard, files = 200, []
    for i in range(0, len(cs), shard):
        items = []
        for t in cs[i:i + shard]:
            idx = coq_list([coq_list(["None" if v is None else "(Some %s)" % z(v) for v in row]) for row in (t["groups"] or [])])
            code = 0
            if t["scanerr"]:
                code = 2 if "panic" in t["scanerr"] else 1
            items.append("(mkG %s (%s : list Z) (%s : list key) (%s : list nat) (%s : list nat) %s %s %s %s %s (%s : list (nat*nat)) (%s : list (nat*nat)))" % (
                coq_list([coq_bool(b) for b in t["isint"]]), coq_list([z(x) for x in t["pads"]]), idx,
                coq_list([nat(x) for x in (t["counts"] or [])]), coq_list([nat(x) for x in (t["offsets"] or [])]),
                cond_coq(t.get("effcond") or t["in"]["cond"], [0], "true"), nat(t["in"]["coarse"]), nat(t["minmarks"]),
                coq_bool(bool(t["conderr"])), nat(code), rng(t["ranges"]), rng(t["segranges"])))
        txt = ("From Coq Require Import ZArith List Bool. From OG Require Import C20.Model C20.Corr.\nImport ListNotations.\n"
               "Definition R := Eval vm_compute in grouped_results [\n%s\n].\nPrint R.\n") % ";\n".join(items)
        files.append(("g%d" % (i // shard), txt))
    res = []
    for idx, (rc, o) in enumerate(ck.coq_eval_many(files, timeout=900)):
        m = re.search(r"R\s*=\s*(\[.*\])\s*:\s*list", o, re.S) if rc == 0 else None
        r = None
        if m:
            try:
                r = ast.literal_eval(re.sub(r"%\w+", "", m.group(1)).replace(";", ",").replace("true", "True").replace("false", "False"))
            except (ValueError, SyntaxError):
                r = None
        want = len(cs[idx * shard:(idx + 1) * shard])
        if r is None or len(r) != want:
            ck.broken.append("grouped stream: model evaluation failed or answered for %s of %d cases: %s" % (None if r is None else len(r), want, o[-300:]))
            return
        res += r
    if any(not (isinstance(e, tuple) and len(e) == 3) for e in res):
        ck.broken.append("grouped stream: unexpected shape of the model's answer")
        return
    mis_first = [i for i, e in enumerate(res) if e[0] != 0]
    mis_pad = [i for i, e in enumerate(res) if e[1] != 0]
    if not mis_first:
        reading = "repaired"
    elif not mis_pad:
        reading = "current"
    else:
        reading = None
    known = viol = 0
    for i, t in enumerate(cs):
        if not t["oracle"]:
            continue
        m1, m2, cov = res[i]
        badgroups = set(t["seggroup"][s_] for s_, m in enumerate(t["segmatch"]) if m and not any(a <= s_ < b for a, b in t["segranges"]))
        nullish = any(v is None for row in t["groups"] for v in row[:max(t["used"], 1)])
        # signature of C20-null-key-grouped-index: a used key column of the key-grouped index holds a null; the implementation
        # equals the model that reads a null cell as the pad value; every key group with an unread matching segment is kept by the
        # model that reads it as -infinity
        if nullish and m2 == 0 and not (t["scanerr"] or "").startswith("panic") and badgroups and -1 not in badgroups and \
                all(g < len(cov) and cov[g] for g in badgroups) and ck.match_finding(F_GRP):
            ck.known_finding(F_GRP, "a segment with a matching row is not read: the index of the attached flush orders a null key strictly first, the reader reads a null cell as the type's pad value")
            known += 1
            continue
        viol += 1
        if viol <= 3:
            ck.violation({"kind": "direct-oracle", "stream": "grouped", "what": t["oracle"][:4], "in": t["in"], "case": t["gid"],
                          "groups": t["groups"], "counts": t["counts"], "ranges": t["ranges"], "segranges": t["segranges"]})
    if reading is None and not viol:
        i = [k for k in mis_first if k in set(mis_pad)]
        k = i[0] if i else mis_first[0]
        ck.broken.append("correspondence C20 key-grouped index: Scan / getSegmentRanges / KeySorter order / __fragment__ layout match the model of Grouped.v "
                         "under neither reading of a null index cell (case %d, masks %s)" % (cs[k]["gid"], res[k][:2]))
        if not getattr(ck, "nofail_detail", None):
            ck.nofail_detail = {"kind": "correspondence", "stream": "grouped", "in": cs[k]["in"], "groups": cs[k]["groups"], "counts": cs[k]["counts"],
                                "offsets": cs[k]["offsets"], "ranges": cs[k]["ranges"], "segranges": cs[k]["segranges"], "masks": res[k][:2]}
    if ck.match_finding(F_GRP) and known == 0:
        ck.notes.append("open finding %s did not reproduce in this run (stale?)" % F_GRP)
    ck.cov["key_grouped_index"] = {
        "evaluations": len(cs), "nontrivial": sum(1 for t in cs if t["nontrivial"]),
        "with_multi_segment_groups": sum(1 for t in cs if any(c > 1 for c in (t["counts"] or []))),
        "with_nulls": sum(1 for t in cs if any(v is None for row in (t["groups"] or []) for v in row)),
        "null_reading_detected": reading, "distinguishing": sum(1 for e in res if e[0] != e[1]),
        "known": known, "violations": viol,
        "rule": "generated rows through the real ColumnStoreTSSPWriter.sortRecord with 8 rows per segment; real NewKeyCondition, "
                "PKIndexReaderImpl.Scan over the key-group record + NewIndexFragmentVariable mark, real getSegmentRanges; oracle per segment"}


def blackbox(ck):
    """thorough tier: one ts-server built from the working tree, column-store measurements with generated primary keys, rows
    written over HTTP and flushed by the real memtable / ColumnStoreTSSPWriter / primary-index writer; every condition is asked
    over the key fields (index narrows the scan) and over twin non-key fields holding the same values (full scan). A row that
    satisfies the condition and is returned by the full scan must be returned by the indexed query (stable over 4 attempts)."""
    srv = ck.go_build_repo("./app/ts-server", "ts-server")
    bb = ck.go_build("./cmd/c20bb", "c20bb", tags="verif")
    if not srv or not bb:
        return
    conf = os.path.join(ck.repo, "config", "openGemini.singlenode.conf")
    rc, out = ck.run([bb, srv, conf, "22000", ck.work, "20000", "60"], timeout=1200)
    msts, done = [], False
    for l in out.splitlines():
        if l.startswith('{"bb"'):
            t = json.loads(l)
            if t["bb"] == "mst":
                msts.append(t)
            elif t["bb"] == "done":
                done = True
            elif t["bb"] == "error":
                ck.broken.append("black box c20bb: %s" % t.get("msg", "")[:300])
                return
    if rc != 0 or not done:
        ck.broken.append("black box c20bb failed rc=%d: %s" % (rc, out[-300:]))
        return
    known = viol = known_tok = 0
    for t in msts:
        for f in t.get("failures") or []:
            if f.get("litmix") and not f.get("err") and ck.match_finding(F_LIT):
                ck.known_finding(F_LIT, "black box: the indexed query misses rows the full scan returns: a float key field is compared with a literal of integral value, which reaches the store as an integer literal")
                known += 1
                continue
            if f.get("bloom") and not f.get("err") and ck.match_finding(F_TOK):
                ck.known_finding(F_TOK, "black box: MATCHPHRASE over the bloom-filter indexed field misses rows the same query over its non-indexed twin returns")
                known_tok += 1
                continue
            viol += 1
            if viol <= 3:
                ck.violation({"kind": "black-box", "what": "the query over the primary-key fields misses rows that satisfy the condition and that the same query over non-key twin fields returns",
                              "failure": f})
    ck.cov["black_box"] = {"measurements": [{k: t.get(k) for k in ("mst", "types", "rows", "files", "queries", "nontrivial", "brute_disagree", "retries")} for t in msts],
                           "known_literal_type": known, "known_bloom_tokens": known_tok, "violations": viol,
                           "rule": "3 measurements x 20000 rows (key groups of the attached flush; one measurement with 1-2 distinct keys, i.e. key groups of several segments; one with a bloom-filter indexed text field and its non-indexed twin), 1-2 files, 60 condition trees each asked over key / indexed fields and over twin fields"}


def _coq_atoms(tr):
    if tr[0] == "atom":
        a = tr[1]
        return ("atom", "(%s, %s, %s, %s)" % tuple(coq_bool(x) for x in a))
    return (tr[0], _coq_atoms(tr[1]), _coq_atoms(tr[2]))

# ---------------------------------------------------------------------------------------------

def strop_stream(ck, scases, vi):
    """string operators on primary-key columns: direct oracle + signatures + correspondence under the two readings.
    vi = index of the detected (rb, norm) model variant."""
    verd = {"known_matcheq": 0, "known_like": 0, "known_null_strop": 0, "violation": 0}
    broken = []
    if not scases:
        return verd, broken, None
    res_true = eval_model(ck, scases, set(i for i, t in enumerate(scases) if t["oracle"]), "st", "true")

    def keyops(t):
        return set(a["op"] for a in atoms(t["in"]["cond"]) if a["col"] >= 0 and a["op"] in STROPS)
    for ti, t in enumerate(scases):
        if not t["oracle"]:
            continue
        ko = keyops(t)
        e = (res_true or {}).get(ti)
        if t["in"].get("writersort") and not reader_sorted(t) and any(v is None for row in t["keys"] for v in row[:max(used_keys(t), 1)]) \
                and e is not None and len(e) == 8 and explained_by_null(t, e, vi % 4):
            if ck.match_finding(F_NULL):
                ck.known_finding(F_NULL, "a fragment with a matching row is pruned: null key values are sorted first by the writer but read as +infinity by the index reader")
                verd["known_null_strop"] += 1
                continue
        nf = t["nfrag"]
        compound = t["in"]["cond"]["op"] in ("and", "or") or t["in"].get("timecond")
        panicked = "index out of range [-1]" in (t["scanerr"] or "") or -2 in (t["maybe"] or [])
        covered = lambda f: any(a <= f < b for a, b in t["ranges"])
        probes = [[f, f + 1] for f in range(nf)] + [list(p) for p in t["in"]["probes"]]
        if panicked and compound and ko & {"like", "matchop"}:
            if ck.match_finding(F_LIKE):
                ck.known_finding(F_LIKE, "LIKE / MATCH on a primary-key column leaves no RPN element; the following AND/OR pops an empty stack and the scan panics")
                verd["known_like"] += 1
                continue
        elif not panicked and ko & {"match", "ipinrange"} and not t["scanerr"] and \
                all(not t["matcheq"][f] for f in range(nf) if t["match"][f] and not covered(f)) and \
                all(not any(t["matcheq"][p[0]:p[1]]) for j, p in enumerate(probes)
                    if j < len(t["maybe"]) and t["maybe"][j] == 0 and any(t["match"][p[0]:p[1]])):
            if ck.match_finding(F_MATCHEQ):
                ck.known_finding(F_MATCHEQ, "a fragment with a matching row is pruned: MATCHPHRASE / IPINRANGE on a primary-key column is read as the equality range [v,v]")
                verd["known_matcheq"] += 1
                continue
        verd["violation"] += 1
        if verd["violation"] <= 3:
            ck.violation({"kind": "direct-oracle", "what": t["oracle"][:4], "in": t["in"], "case": t["id"], "stream": "strop",
                          "ranges": t["ranges"], "match": t["match"], "scanerr": t["scanerr"]})
    # correspondence: which reading does the tree implement?
    nolike = [t for t in scases if not keyops(t) & {"like", "matchop"}]
    res_eq = eval_model(ck, nolike, set(), "se", "eq")
    if res_true is None or res_eq is None:
        return verd, broken, None

    def mask(res, i):
        e = res.get(i)
        return 0 if e is None else (e[0][0] if len(e) == 1 else e[vi][0])
    mis_true = [i for i in range(len(scases)) if mask(res_true, i)]
    mis_eq = [i for i in range(len(nolike)) if mask(res_eq, i)]
    like_ok = all(bool(t["scanerr"]) or not (t["in"]["cond"]["op"] in ("and", "or") or t["in"].get("timecond"))
                  for t in scases if keyops(t) & {"like", "matchop"})
    if not mis_true:
        reading = "repaired"
    elif not mis_eq and like_ok:
        reading = "current"
    else:
        reading = None
        i = mis_true[0]
        if mis_eq:
            scases = nolike
            i = mis_eq[0]
        broken.append(("correspondence C20: string operators on key columns match neither the equality reading nor the "
                       "may-be-true reading (case id %d)" % scases[i]["id"], scases[i]))
    return verd, broken, reading


def lit_stream(ck, lcases, vi):
    """numeric literals of another type than the key column's (float key = integer literal, integer key < number literal):
    direct oracle + signature of C20-literal-type-mismatch + detection of the reading the tree implements."""
    verd = {"known_littype": 0, "known_null_lit": 0, "violation": 0}
    if not lcases:
        return verd, [], None
    bad_ids = set(i for i, t in enumerate(lcases) if t["oracle"])
    res_rep = eval_model(ck, lcases, bad_ids, "lr", "true")
    res_cur = eval_model(ck, lcases, bad_ids, "lc", "litcur")
    if res_rep is None or res_cur is None:
        return verd, [], None

    def ent(res, i):
        e = res.get(i)
        return None if e is None else (e[0] if len(e) == 1 else e[vi])
    for i in sorted(bad_ids):
        t = lcases[i]
        ec, er = ent(res_cur, i), ent(res_rep, i)
        nf = t["nfrag"]
        probes = [[f, f + 1] for f in range(nf)] + [list(p) for p in t["in"]["probes"]]
        bad_probes = [j for j, p in enumerate(probes) if j < len(t["maybe"] or []) and t["maybe"][j] == 0 and any(t["match"][p[0]:p[1]])]
        covered = lambda f: any(a <= f < b for a, b in t["ranges"])
        bad_frags = [f for f in range(nf) if t["match"][f] and not covered(f)] if not t["scanerr"] else []
        panicked = (t["scanerr"] or "").startswith("panic") or -2 in (t["maybe"] or [])
        # failing spots of the min/max-rectangle stream (CheckInRange says "cannot be true" for a fragment with a matching row):
        # nulls play no role there (the rectangle is built from the non-null values), and the converted reading is sound by
        # C20_minmax_sound, so such a spot is explained as soon as the implementation equals the bits model on the case
        bad_marks = [f for f, mk in enumerate(t["marks"] or []) if mk[0] == 0 and f < len(t["match"]) and t["match"][f]]
        def keeps(e):
            return e is not None and all(j < len(e[2]) and e[2][j] for j in bad_probes) and all(f < len(e[1]) and e[1][f] for f in bad_frags)
        e8c, e8r = res_cur.get(i), res_rep.get(i)
        full = e8c is not None and e8r is not None and len(e8c) == 8 and len(e8r) == 8
        nullish = t["in"].get("writersort") and not reader_sorted(t) and any(v is None for row in t["keys"] for v in row[:max(used_keys(t), 1)])
        MSG_LIT = "a fragment with a matching row is pruned: a numeric literal of another type than the key column's is stored bit-for-bit as a value of the column's type"
        MSG_NULL = "a fragment with a matching row is pruned: null key values are sorted first by the writer but read as +infinity by the index reader"
        done = False
        if not panicked and (bad_probes or bad_frags or bad_marks):
            if ec is not None and ec[0] == 0:
                # the implementation behaves like the model that stores the literal's bits (null index cell = +inf)
                if keeps(er):
                    # every failing spot is kept / true once the literal is converted (or the predicate left unbounded)
                    if ck.match_finding(F_LIT):
                        ck.known_finding(F_LIT, MSG_LIT)
                        verd["known_littype"] += 1
                        done = True
                elif full and nullish and keeps(e8c[4 + vi % 4]):
                    # the literal is not involved: the null order alone explains it
                    if ck.match_finding(F_NULL):
                        ck.known_finding(F_NULL, MSG_NULL)
                        verd["known_null_lit"] += 1
                        done = True
                elif full and nullish and keeps(e8r[4 + vi % 4]):
                    # both defects are needed to explain the case
                    if ck.match_finding(F_LIT) and ck.match_finding(F_NULL):
                        ck.known_finding(F_LIT, MSG_LIT + " (together with the null order of the index)")
                        ck.known_finding(F_NULL, MSG_NULL)
                        verd["known_littype"] += 1
                        done = True
            if not done and er is not None and er[0] == 0 and full and nullish and keeps(e8r[4 + vi % 4]):
                # the implementation converts the literal; the null order alone explains the case
                if ck.match_finding(F_NULL):
                    ck.known_finding(F_NULL, MSG_NULL)
                    verd["known_null_lit"] += 1
                    done = True
        if done:
            continue
        verd["violation"] += 1
        if verd["violation"] <= 3:
            ck.violation({"kind": "direct-oracle", "what": t["oracle"][:4], "in": t["in"], "case": t["id"], "stream": "litmix",
                          "ranges": t["ranges"], "match": t["match"], "scanerr": t["scanerr"]})
    mis_rep = [i for i in range(len(lcases)) if (ent(res_rep, i) or [0])[0]]
    mis_cur = [i for i in range(len(lcases)) if (ent(res_cur, i) or [0])[0]]
    broken = []
    if not mis_rep:
        reading = "repaired"
    elif not mis_cur:
        reading = "current"
    else:
        reading = None
        # null-order effects are the same under both readings; only report when neither reading fits a case
        i = [k for k in mis_rep if k in set(mis_cur)]
        k = i[0] if i else mis_rep[0]
        broken.append(("correspondence C20: comparisons of a key column with a numeric literal of another type match neither the bit-for-bit "
                       "reading nor the converted reading (case id %d)" % lcases[k]["id"], lcases[k]))
    return verd, broken, reading


def reader_sorted(t):
    """the key rows (first used columns) are in the order in which the index reader interprets them: lexicographic, nulls greatest"""
    u = max(used_keys(t), 1)
    big = (1, 0)
    ks = [tuple(big if v is None else (0, v) for v in row[:u]) for row in t["keys"]]
    return all(ks[i] <= ks[i + 1] for i in range(len(ks) - 1))


def explained_by_rb(t, e):
    nf = t["nfrag"]
    probes = [[f, f + 1] for f in range(nf)] + [list(p) for p in t["in"]["probes"]]
    bad_probes = [j for j, p in enumerate(probes) if j < len(t["maybe"] or []) and t["maybe"][j] == 0 and any(t["match"][p[0]:p[1]])]
    covered = lambda f: any(a <= f < b for a, b in t["ranges"])
    bad_frags = [f for f in range(nf) if t["match"][f] and not covered(f)] if not t["scanerr"] else []
    if not bad_probes and not bad_frags:
        return False
    for norm in (0, 1):
        cur, rep = e[norm], e[2 + norm]
        ok = all(j < len(cur[2]) and j < len(rep[2]) and (not cur[2][j]) and rep[2][j] for j in bad_probes)
        if sig_mut_input(t) and bad_probes:
            # the rewriting of index values persists across the calls of one Scan (not modelled): judge by the single calls
            pass
        else:
            ok = ok and all(f < len(cur[1]) and f < len(rep[1]) and (not cur[1][f]) and rep[1][f] for f in bad_frags)
        if ok:
            return True
    return False


def explained_by_null(t, e, vi):
    """every failing spot of the case (matching fragment outside the returned ranges, false MayBeInRange over a range with
    a matching row) is pruned / false in the model with a null index cell read as +infinity (entry vi) and kept / true in
    the model with it read as the writer's pad value (entry 4+vi), and on this case the implementation agrees with the
    former in every compared observable"""
    nf = t["nfrag"]
    probes = [[f, f + 1] for f in range(nf)] + [list(p) for p in t["in"]["probes"]]
    bad_probes = [j for j, p in enumerate(probes) if j < len(t["maybe"] or []) and t["maybe"][j] == 0 and any(t["match"][p[0]:p[1]])]
    covered = lambda f: any(a <= f < b for a, b in t["ranges"])
    bad_frags = [f for f in range(nf) if t["match"][f] and not covered(f)] if not t["scanerr"] else []
    if (not bad_probes and not bad_frags) or any(m == -2 for m in (t["maybe"] or [])) or (t["scanerr"] or "").startswith("panic"):
        return False
    cur, rep = e[vi], e[4 + vi]
    if cur[0] != 0:
        return False        # the implementation does not behave like the model that reads a null index cell as +infinity
    return all(j < len(cur[2]) and j < len(rep[2]) and (not cur[2][j]) and rep[2][j] for j in bad_probes) and \
        all(f < len(cur[1]) and f < len(rep[1]) and (not cur[1][f]) and rep[1][f] for f in bad_frags)


def run_harness(ck, binp, args, timeout=1200, env=None, prefixes=('{"id"', '{"bid"', '{"mid"')):
    rc, out = ck.run([binp] + args, timeout=timeout, env=env)
    cases = []
    for l in out.splitlines():
        if l.startswith(prefixes):
            try:
                cases.append(json.loads(l))
            except ValueError:
                ck.broken.append("unparsable harness line")
    return rc, cases, out


def eval_model(ck, cases, detail_ids, tag="c", strmode="true"):
    """returns {case index: per-variant [(mask, cover, maybe)...]} for interesting cases; None on failure"""
    shard = 150
    files = []
    for i in range(0, len(cases), shard):
        chunk = cases[i:i + shard]
        txt = ("From Coq Require Import ZArith List Bool. From OG Require Import C20.Model C20.Corr.\n"
               "Import ListNotations.\n"
               "Definition cases : list ccase := [\n%s\n].\n"
               "Definition R := Eval vm_compute in results cases.\nPrint R.\n") % ";\n".join(
                   case_coq(t, (i + j) in detail_ids, strmode) for j, t in enumerate(chunk))
        files.append(("%s%d" % (tag, i // shard), txt))
    res = {}
    outs = ck.coq_eval_many(files, timeout=900)
    for idx, (rc, o) in enumerate(outs):
        r = parse_results(o) if rc == 0 else None
        if r is None:
            ck.broken.append("model evaluation failed on shard %s%d: %s" % (tag, idx, o[-400:]))
            return None
        for k, e in r:
            res[idx * shard + k] = e
    return res


def classify(ck, cases, tag):
    """returns (variant description, list of broken-correspondence descriptions, oracle verdict counts)"""
    oracle_ids = set(i for i, t in enumerate(cases) if t["oracle"])
    res = eval_model(ck, cases, oracle_ids, tag)
    if res is None:
        return None
    # ---- variant detection: reading of a null index cell (entries 0..3 = +infinity, 4..7 = the writer's pad value), then
    # checkRangeRightBound and the index-bound rewriting within that reading
    n = len(cases)
    sig2 = [sig_mut_input(t) for t in cases]
    plain = [i for i in range(n) if not sig2[i]]
    s2 = [i for i in range(n) if sig2[i]]

    def detect(off):
        def mask(i, v):
            e = res.get(i)
            if e is None:
                return 0
            if len(e) == 1:      # condition-error case: single entry
                return e[0][0]
            return e[off + v][0]
        rb_cur_mis = [i for i in plain if mask(i, 1) != 0]
        rb_rep_mis = [i for i in plain if mask(i, 3) != 0]
        var_rb = "repaired" if not rb_rep_mis else ("current" if not rb_cur_mis else None)
        base = 2 if var_rb == "repaired" else 0
        norm_rep_mis = [i for i in s2 if mask(i, base + 1) != 0]

        def cur_mask(i):
            m = mask(i, base) & ~1          # the rewriting persists across the calls of one Scan: not modelled
            t = cases[i]
            if has_null_mid_int(t) or -2 in (t["maybe"] or []) or any(p["final"][0] == -2 for p in (t.get("cbprobes") or [])):
                m &= ~(2 | 16)              # packed-value addressing / panics: not modelled
            return m
        norm_cur_mis = [i for i in s2 if cur_mask(i) != 0]
        if not norm_rep_mis:
            var_norm = "repaired"
        elif not norm_cur_mis and any(mut_evidence(cases[i]) for i in s2):
            var_norm = "current"
        else:
            var_norm = None
        return {"rb": var_rb, "norm": var_norm, "mask": mask, "rb_cur_mis": rb_cur_mis, "rb_rep_mis": rb_rep_mis,
                "norm_rep_mis": norm_rep_mis, "norm_cur_mis": norm_cur_mis,
                "total": len(rb_rep_mis if var_rb != "current" else rb_cur_mis) + len(norm_rep_mis if var_norm != "current" else norm_cur_mis)}
    d_inf, d_pad = detect(0), detect(4)
    ok_inf = d_inf["rb"] is not None and d_inf["norm"] is not None
    ok_pad = d_pad["rb"] is not None and d_pad["norm"] is not None
    null_dist = sum(1 for i in range(n) if res.get(i) is not None and len(res[i]) == 8 and
                    [x[0] for x in res[i][:4]] != [x[0] for x in res[i][4:]])
    if ok_inf and ok_pad:
        var_null, d, off = "undetermined", d_inf, 0    # no case of this run has a null in an index cell the condition uses
    elif ok_pad:
        var_null, d, off = "repaired", d_pad, 4
    elif ok_inf:
        var_null, d, off = "current", d_inf, 0
    else:
        var_null = None
        d, off = (d_pad, 4) if d_pad["total"] < d_inf["total"] else (d_inf, 0)
    mask, var_rb, var_norm = d["mask"], d["rb"], d["norm"]
    rb_cur_mis, rb_rep_mis, norm_rep_mis, norm_cur_mis = d["rb_cur_mis"], d["rb_rep_mis"], d["norm_rep_mis"], d["norm_cur_mis"]
    broken = []
    if var_rb is None:
        i = min(rb_rep_mis, key=lambda k: k)
        broken.append(("correspondence C20: the tree matches neither the current nor the repaired model of "
                       "checkRangeRightBound (first disagreeing case %d, masks %s)" % (i, [mask(i, v) for v in range(4)]), i))
    if var_norm is None and var_rb is not None:
        i = norm_rep_mis[0]
        broken.append(("correspondence C20: the tree matches neither model of the index-bound handling on a case with "
                       "an integer middle key column (case %d, masks %s)" % (i, [mask(i, v) for v in range(4)]), i))
    # variant independent bits
    for i in range(n):
        e = res.get(i)
        if e is None:
            continue
        m = e[0][0] if len(e) == 1 else min(x[0] for x in e)
        if len(e) == 1 and m & 8:
            broken.append(("correspondence C20: NewKeyCondition error/no-error differs from the model's compile on case %d" % i, i))
        elif all(x[0] & 4 for x in e):
            broken.append(("correspondence C20: CheckInRange marks differ from the model's check_in_range on case %d" % i, i))
    # ---- oracle failures
    verdicts = {"known_rb": 0, "known_mut": 0, "known_null": 0, "violation": 0}
    for i in sorted(oracle_ids):
        t = cases[i]
        e = res.get(i)
        what = "; ".join(t["oracle"][:2])
        rec = {"kind": "direct-oracle", "what": t["oracle"], "in": t["in"], "case": i, "stream": tag,
               "ranges": t["ranges"], "match": t["match"], "scanerr": t["scanerr"]}
        done = False
        if t["in"].get("writersort") and not reader_sorted(t) and any(v is None for row in t["keys"] for v in row[:max(used_keys(t), 1)]) \
                and e is not None and len(e) == 8 and explained_by_null(t, e, (2 if var_rb == "repaired" else 0) + (1 if var_norm == "repaired" else 0)):
            # rows ordered by the writer's sort (a null sorts as the smallest value of the type) are not in the order the
            # reader assumes (null = +infinity); every failing spot is pruned / false in the model that reads a null index
            # cell as +infinity and kept / true in the model that reads it as the writer's pad value
            if ck.match_finding(F_NULL):
                ck.known_finding(F_NULL, "a fragment with a matching row is pruned: null key values are sorted first by the writer but read as +infinity by the index reader")
                verdicts["known_null"] += 1
                continue
        if sig2[i] and mut_evidence(t):
            if ck.match_finding(F_MUT):
                ck.known_finding(F_MUT, "a fragment with a matching row is pruned / the scan panics because an index value was rewritten in place")
                verdicts["known_mut"] += 1
                done = True
        if done:
            continue
        if e is not None and len(e) == 8 and used_keys(t) >= 2 and explained_by_rb(t, e[off:off + 4]):
            # every pruned matching fragment / false may_be is also pruned / false in the model of today's
            # checkRangeRightBound (returns mark) and kept / true in the repaired model (returns res)
            if ck.match_finding(F_RB):
                ck.known_finding(F_RB, "a fragment with a matching row is pruned: the accumulated mark is dropped by checkRangeRightBound")
                verdicts["known_rb"] += 1
                continue
        verdicts["violation"] += 1
        if verdicts["violation"] <= 3:
            ck.violation(rec)
    return {"rb": var_rb, "norm": var_norm, "null": var_null, "off": off, "null_distinguishing": null_dist, "broken": broken, "verdicts": verdicts,
            "mismatch_counts": {"rb_current": len(rb_cur_mis), "rb_repaired": len(rb_rep_mis),
                                "norm_repaired": len(norm_rep_mis), "norm_current": len(norm_cur_mis)}}


def setup():
    """pre-build the binaries (the engine-linked harness and, for the thorough tier's black box, the server)"""
    ck = vlib.Check(PID, "quick")
    try:
        ok = ck.go_build("./cmd/c20", "c20") is not None and ck.go_build("./cmd/c20bb", "c20bb") is not None and \
            ck.go_build_repo("./app/ts-server", "ts-server") is not None
    finally:
        import shutil
        shutil.rmtree(ck.work, ignore_errors=True)
    return 0 if ok else 1


def main(ck):
    # known_findings.json is merged from the per-property fragments by tools/merge.py; entries of the committed fragment
    # props/C20/findings.json that have not been merged yet are honoured too (read-only, never written at run time)
    frag = os.path.join(ck.verif, "props", PID, "findings.json")
    if os.path.exists(frag):
        have = set(f["id"] for f in ck.findings)
        ck.findings += [f for f in json.load(open(frag))["findings"] if f["property"] == PID and f["id"] not in have]
    ck.assumptions += [
        "typed key values are compared by the harness through order-preserving encodings into Z (integers and time as themselves, "
        "floats/strings/booleans by dense rank within the case, the writer's pad value of the type included; no NaN; -0.0 = 0.0); "
        "literals have the column's type",
        "rows handed to PKIndexWriterImpl.Build are in the order of the REAL record.SortHelper.SortForColumnStore (the column store's flush "
        "sort: a null key sorts as - and ties with - the smallest value the writer knows for the type); other orders (e.g. the one a "
        "block-wise compaction merge produces with its *WithLimit padding) are not covered",
        "row semantics of the condition: a null satisfies no comparison (lib/binaryfilterfunc drops nulls for every operator); MATCHPHRASE = "
        "the engine's SimpleTokenFinder, IPINRANGE = binaryfilterfunc.IsIpInRange",
        "bloom filter: the hash function is abstract (Section variable). Tokenizers: modelled (TokModel.v) and tied on every run; the inclusion "
        "'a matching value yields every token of the phrase' is PROVED for values without bytes >= 0x80 and stays a premise for non-ASCII text "
        "(false for today's byte-wise writer: finding C20-bloom-nonascii-token-boundary); gram / token-less phrases: finding C20-bloom-gram-phrase",
        "min-max / set skip indexes: inert in production (checked obligation 'skprobe': reader from the registered creator has no ReadFunc and "
        "ReInit panics, the writers write nothing, `set` is refused by the parser); the min-max pruning rule is proved (C20_minmax_sound) and the "
        "real CheckInRange is driven over its rectangles, but no min-max reader / writer implementation is tied to it",
        "not exercised: the cgo `logstore` build, full-text (MultiField*) and IP bloom readers, NaN keys, Field_Type_Tag sort keys",
    ]
    ck.cov["trusted_base"] = ["Coq 8.16.1 kernel + vm_compute (cases evaluation, Refuted witnesses, Examples)",
                              "no axioms (Print Assumptions: closed)", "Go harness cmd/c20 (generator, brute-force oracle, "
                              "order-preserving encodings)", "python driver props/C20/run.py (signatures, variant detection)"]
    ck.coq_audit(["C20"])
    ok = ck.coq_build(["C20/Props.vo", "C20/BloomProps.vo", "C20/Refuted.vo", "C20/Corr.vo"])
    if ok:
        ck.coq_props(["C20/Props.v", "C20/BloomProps.v", "C20/Refuted.v"])
    binp = ck.go_build("./cmd/c20", "c20")
    if not binp or not ok:
        return
    # ---- cases: corpus / replay first
    if getattr(ck, "replay", None):
        files = [os.path.abspath(ck.replay)]
        n = 0
    else:
        files = sorted(glob.glob(os.path.join(ck.verif, "corpus", PID, "*.json")))
        n = 1500 if ck.tier == "quick" else 20000
    cases = []
    bcases = []
    if files:
        rc, cs, out = run_harness(ck, binp, ["replay"] + files)
        if rc != 0 or len(cs) != len(files):
            ck.broken.append("harness c20 replay failed rc=%d cases=%d/%d: %s" % (rc, len(cs), len(files), out[-400:]))
            return
        for t, f in zip(cs, files):
            t["corpus"] = os.path.basename(f)
        cases += [t for t in cs if "id" in t]
        bcases += [t for t in cs if "bid" in t]
        for t in cs:
            if "mid" in t and t["oracle"]:
                ck.violation({"kind": "direct-oracle", "stream": "multi", "what": t["oracle"][:4], "in": t["in"], "files": t["files"], "batches": t["batches"]})
    ncorpus = len(cases)
    if n:
        nb = 600 if ck.tier == "quick" else 8000
        nv = 6 if ck.tier == "quick" else 60
        rc, cs, out = run_harness(ck, binp, ["bloom", str(nb), str(nv)])
        if rc != 0 or len(cs) != nb + nv:
            ck.broken.append("harness c20 bloom failed rc=%d cases=%d/%d: %s" % (rc, len(cs), nb, out[-400:]))
            return
        bcases += cs
        m = re.search(r'^\{"skprobe":.*$', out, re.M)
        if m:
            ck.c20_splitbytes = json.loads(m.group(0)).get("splitbytes")
            pr = json.loads(m.group(0))["skprobe"]
            ck.cov["skip_index_probe"] = pr
            # CHECKED obligation "min-max and set skip indexes cannot prune today": the check turns red as soon as one of these
            # facts changes, because then the index needs its own stream (its pruning rule is proved in MinMax.v:
            # C20_minmax_sound, but nothing ties a reader / writer implementation to it yet)
            want = {"minmax_readfunc_nil": "true", "minmax_factory_readfunc_nil": "true",
                    "minmax_writer": "attach_err=false detach_bufs=0 detach_files=0 files_written=0",
                    "set_writer": "attach_err=false detach_bufs=0 detach_files=0 files_written=0",
                    "grammar_set": "false", "grammar_minmax": "true", "grammar_bloomfilter": "true"}
            diff = {k: pr.get(k) for k, v in want.items() if pr.get(k) != v}
            if diff or "panics" not in pr.get("minmax", ""):
                ck.broken.append("skip-index probe: the min-max / set skip index no longer is inert (MinMaxIndexReader.ReadFunc nil + ReInit "
                                 "panics, writers write nothing, `set` not creatable): %s - it became functional and needs its own stream "
                                 "in this check (not covered)" % (diff or pr.get("minmax")))
        else:
            ck.broken.append("harness c20 bloom: skip-index probe line missing")
    if n:
        multi_stream(ck, binp)
        grouped_stream(ck, binp)
    if n and (ck.tier == "thorough" or os.environ.get("C20_BLACKBOX")):
        blackbox(ck)
    if n:
        rc, cs, out = run_harness(ck, binp, ["gen", str(n)])
        if rc != 0 or len(cs) != n:
            ck.broken.append("harness c20 failed rc=%d cases=%d/%d: %s" % (rc, len(cs), n, out[-400:]))
            return
        cases += cs
    bverd, bbroken = bloom_stream(ck, bcases) if bcases else ({"known_gram": 0, "known_vert": 0, "known_nonascii": 0, "violation": 0}, [])
    for msg, t in bbroken[:3]:
        ck.broken.append(msg)
    if bbroken and not ck.violations:
        t = bbroken[0][1]
        ck.nofail_detail = {"kind": "correspondence", "explanation": bbroken[0][0], "in": t["in"] if t else None,
                            "implementation": {k: t[k] for k in ("kept", "ranges", "schema", "atoms")} if t else None}
    import time as _t
    _t0 = _t.time()
    tokinfo = tok_stream(ck, bcases, getattr(ck, "c20_splitbytes", None)) if bcases else None
    ck.log("tokenizer tie: %s (%.1fs)" % ({k: v for k, v in (tokinfo or {}).items() if k != "writer"}, _t.time() - _t0))
    ck.cov["tokenizer_tie"] = tokinfo
    ck.cov["bloom"] = {"evaluations": len(bcases), "with_reader": sum(1 for t in bcases if t["schema"]),
                       "distinct_nontrivial": len(set(json.dumps(t["in"], sort_keys=True) for t in bcases if t["nontrivial"])),
                       "with_nulls": sum(1 for t in bcases if any(v is None for v in t["in"]["content"])),
                       "with_non_ascii_text": sum(1 for t in bcases if t["in"].get("tag") == "nonascii"),
                       "gram_or_tokenless_phrases": sum(1 for t in bcases if any(a.get("gram") or a.get("notoken") for a in t["atoms"])),
                       "verdicts": bverd,
                       "rule": "string column(s) with nulls / empty strings / repeated tokens cut into segments (boundaries inside null runs), "
                               "bloom filter files written by GenBloomFilterData, conditions of MATCHPHRASE / = on indexed and non-indexed "
                               "columns under AND/OR; non-trivial = a segment matches and a segment is pruned"}
    if not cases:
        ck.cov["evaluations"] = len(bcases)
        return
    scases = [t for t in cases if t["in"].get("tag") == "strop"]
    lcases = [t for t in cases if t["in"].get("tag") == "litmix"]
    allcases = cases
    ncases = [t for t in cases if t["in"].get("tag") == "notail"]
    cases = [t for t in cases if t["in"].get("tag") not in ("strop", "litmix", "notail")]
    r = classify(ck, cases, "c")
    if r is None:
        return
    vi = r["off"] + (2 if r["rb"] == "repaired" else 0) + (1 if r["norm"] == "repaired" else 0)
    sverd, sbroken, sreading = strop_stream(ck, scases, vi)
    r["broken"] += sbroken
    r["verdicts"].update(sverd)
    # index record without the trailing last-key row (the shape the attached flush writes): direct oracle on Scan only; a
    # failure is a null-order failure (today's reader) when the case is inside that finding's input signature, else a violation
    nviol = nknown = 0
    for t in ncases:
        if not t["oracle"]:
            continue
        nullish = not reader_sorted(t) and any(v is None for row in t["keys"] for v in row[:max(used_keys(t), 1)])
        if nullish and r["null"] in ("current", "undetermined") and not (t["scanerr"] or "").startswith("panic") and ck.match_finding(F_NULL):
            ck.known_finding(F_NULL, "a fragment with a matching row is pruned: null key values are sorted first by the writer but read as +infinity by the index reader")
            nknown += 1
            continue
        nviol += 1
        if nviol <= 3:
            ck.violation({"kind": "direct-oracle", "what": t["oracle"][:4], "in": t["in"], "case": t["id"], "stream": "notail",
                          "ranges": t["ranges"], "match": t["match"], "scanerr": t["scanerr"]})
    r["verdicts"].update({"notail_cases": len(ncases), "notail_known_null": nknown, "notail_violation": nviol})
    r["verdicts"]["violation"] += nviol
    lverd, lbroken, lreading = lit_stream(ck, lcases, vi)
    r["broken"] += lbroken
    r["verdicts"].update(lverd)
    ck.cov["numeric_literal_of_another_type"] = {"evaluations": len(lcases), "verdicts": lverd, "reading_detected": lreading}
    if ck.match_finding(F_LIT) and lcases and lverd["known_littype"] == 0:
        ck.notes.append("open finding %s did not reproduce in this run (stale?)" % F_LIT)
    ck.cov["string_operators_on_key_columns"] = {"evaluations": len(scases), "verdicts": sverd, "reading_detected": sreading}
    for fid, key in ((F_MATCHEQ, "known_matcheq"), (F_LIKE, "known_like")):
        if ck.match_finding(fid) and scases and sverd[key] == 0:
            ck.notes.append("open finding %s did not reproduce in this run (stale?)" % fid)
    ck.notes.append("variant detected: checkRangeRightBound=%s, index-bound rewriting=%s, null index cell=%s (%d distinguishing cases); mismatch counts %s; oracle verdicts %s" % (
        r["rb"], r["norm"], r["null"], r["null_distinguishing"], r["mismatch_counts"], r["verdicts"]))
    ck.log(ck.notes[-1])
    # stale findings (open entries that no longer reproduce) are reported, not failed
    for fid, key in ((F_GRAM, "known_gram"), (F_NA, "known_nonascii"), (F_TRUNC, "known_trunc"), (F_TOK, "known_tokens")):
        if ck.match_finding(fid) and bcases and bverd.get(key, 0) == 0:
            ck.notes.append("open finding %s did not reproduce in this run (stale?)" % fid)
    for fid, key in ((F_RB, "known_rb"), (F_MUT, "known_mut"), (F_NULL, "known_null")):
        if ck.match_finding(fid) and r["verdicts"][key] == 0:
            ck.notes.append("open finding %s did not reproduce in this run (stale?)" % fid)
    if r["broken"] and r["verdicts"]["violation"] == 0:
        # a disagreement without a failing input: search a fresh, larger stream with the direct oracle before giving up
        rc, cs2, out = run_harness(ck, binp, ["gen", str(max(3 * n, 1500))], env={"VERIF_SEED": str(ck.seed + 1)})
        bad = [t for t in cs2 if t["oracle"] and t["in"].get("tag") not in ("strop", "litmix", "notail")]
        if bad:
            classify(ck, [t for t in cs2 if t["in"].get("tag") not in ("strop", "litmix", "notail")], "x")   # reports failing inputs outside the signatures
        for msg, i in r["broken"][:3]:
            ck.broken.append(msg)
        i = r["broken"][0][1]
        bt = cases[i] if isinstance(i, int) else i
        ck.nofail_detail = {"kind": "correspondence", "explanation": r["broken"][0][0], "in": bt["in"],
                            "implementation": {k: bt[k] for k in ("conderr", "scanerr", "ranges", "maybe", "marks", "mutated")}}
    # ---- thorough tier: bounded-exhaustive enumeration of depth-3 condition trees over one record with 2 / 3 key columns
    if ck.tier == "thorough" and n:
        enum_info = {}
        for nk in (2, 3):
            rc, cse, out = run_harness(ck, binp, ["enum", str(nk)], timeout=3000)
            if rc != 0 or not cse:
                ck.broken.append("harness c20 enum %d failed rc=%d: %s" % (nk, rc, out[-300:]))
                continue
            re_ = classify(ck, cse, "e%d" % nk)
            if re_ is None:
                continue
            enum_info[str(nk)] = {"conditions": len(cse), "verdicts": re_["verdicts"], "mismatch_counts": re_["mismatch_counts"],
                                  "nontrivial": sum(1 for t in cse if t["nontrivial"]),
                                  "record": {"types": cse[0]["in"]["types"], "rows": len(cse[0]["in"]["rows"]), "sizes": cse[0]["in"]["sizes"]}}
            if (re_["rb"], re_["norm"]) != (r["rb"], r["norm"]) and not re_["broken"]:
                pass   # an enumeration over one record may not contain a case that distinguishes the variants
            for msg, i in re_["broken"][:2]:
                ck.broken.append("[enum %d] %s" % (nk, msg))
                if not getattr(ck, "nofail_detail", None):
                    ck.nofail_detail = {"kind": "correspondence", "explanation": msg, "in": cse[i]["in"]}
            allcases = allcases + cse
        ck.cov["bounded_exhaustive"] = enum_info
    # ---- coverage
    hist = {"key_columns": {}, "types": {}, "ops": {}, "strategy": {"binary": 0, "exclusion": 0}, "with_nulls": 0,
            "cond_errors": {}, "scan_errors": {}, "fragments": {}, "tags": {}}
    nontriv = set()
    cases = allcases
    for t in cases:
        i = t["in"]
        hist["key_columns"][len(i["types"])] = hist["key_columns"].get(len(i["types"]), 0) + 1
        for ty in i["types"]:
            hist["types"][ty] = hist["types"].get(ty, 0) + 1
        for a in atoms(i["cond"]):
            hist["ops"][a["op"]] = hist["ops"].get(a["op"], 0) + 1
        if t["conderr"]:
            k = t["conderr"][:40]
            hist["cond_errors"][k] = hist["cond_errors"].get(k, 0) + 1
        else:
            hist["strategy"]["binary" if t["binary"] else "exclusion"] += 1
        if t["scanerr"]:
            k = t["scanerr"][:40]
            hist["scan_errors"][k] = hist["scan_errors"].get(k, 0) + 1
        if any(v is None for row in t["keys"] for v in row):
            hist["with_nulls"] += 1
        b = min(t["nfrag"] // 4 * 4, 16)
        hist["fragments"]["%d+" % b] = hist["fragments"].get("%d+" % b, 0) + 1
        if i.get("tag"):
            hist["tags"][i["tag"]] = hist["tags"].get(i["tag"], 0) + 1
        if t["nontrivial"]:
            nontriv.add(json.dumps([i["types"], i["rows"], i["sizes"], i["cond"]], sort_keys=True))
    ck.cov["evaluations"] = len(cases) + len(bcases)
    ck.cov["corpus_cases"] = ncorpus
    ck.cov["distinct_nontrivial"] = len(nontriv)
    ck.cov["rule"] = ("sorted key records (1..3 key columns of int/float/string/bool, duplicates, nulls, boundary integers, fragment "
                      "sizes fixed-with-short-tail or arbitrary) x condition trees (= != < <= > >= on key and non-key columns, "
                      "AND/OR, parentheses, flipped literals, literals aimed at fragment boundary keys, optional time bounds) x "
                      "reader settings; non-trivial = the condition uses a key column, at least one fragment contains a matching "
                      "row and at least one fragment is pruned; distinct = different (types, rows, sizes, condition)")
    ck.cov["input_histogram"] = hist
    ck.cov["variant_detected"] = {"checkRangeRightBound": r["rb"], "index_bound_rewriting": r["norm"], "null_index_cell": r["null"]}
    ck.cov["oracle_verdicts"] = r["verdicts"]
    ck.cov["model_mismatch_counts"] = r["mismatch_counts"]
    ok_cases = len(cases) - len(r["broken"])
    ck.cov["traces_validated_against_impl"] = ok_cases if not r["broken"] else 0
    ck.cov["samples"] = [{"types": t["in"]["types"], "rows": t["in"]["rows"][:6], "sizes": t["in"]["sizes"], "cond": t["in"]["cond"],
                          "ranges": t["ranges"], "match": t["match"]} for t in cases[ncorpus:ncorpus + 2]]
