"""C04 - concurrent writes, flushes, compactions and queries show no torn data. See DESIGN.md section 4 "C04" and
props/C04/NOTES.md.  PARTIAL claim: the lock-granular protocol is proved in Coq (coq/C04); the model is tied to the
code by model-guided forced schedules on a real shard; data races / memory-model effects / scheduler timing are only
exercised by a free-running stress built with -race whose observation log is checked by the direct oracle."""
import json
import os
import re

PID = "C04"

# ------------------------------------------------------------------------------------------------------------------
# known data races of the unchanged tree.  A race report is identified by the RACING OBJECT, derived from the source
# lines of the innermost repository frame of both accesses (the file:line of the report, read from the tree under test):
# the struct field (or sync primitive, or indexed package-level variable) named on BOTH lines, with the struct resolved
# from the receiver of the enclosing method or from the struct declarations of the package.  Which function PAIR the
# detector reports depends on the schedule; the object does not.  A finding's signature is "races on <object>"; a report
# whose object is covered by no OPEN finding is a VIOLATION.  "pkg.Type.*" = every field of that struct (the racing
# object is the instance as a whole: an iterator / performer set closed while in use, a reader initialised lazily).
RACE_OBJECTS = {
    "C04-race-memtable-time-bounds": ["mutable.WriteRec.lastAppendTime", "mutable.WriteRec.firstAppendTime", "mutable.WriteRec.rec"],
    "C04-race-file-list-read-without-list-lock": ["immutable.TSSPFiles.files", "immutable.tsspFile.ref"],
    "C04-race-wal-switch-file-list": ["engine.WalFiles.files"],
    "C04-race-snapshot-waitgroup-and-counters": [
        "engine.shard.snapshotWg",                   # WaitGroup: Add (prepareSnapshot) unordered with Wait (waitSnapshot)
        "immutable.MmsTables.wg",                    # WaitGroup: Add when a merge / hot task starts unordered with Wait (DisableCompAndMerge, Close)
        "immutable.MmsTables.stopCompMerge",         # stop channel variable written under inCompLock, read without it
        "immutable.MmsTables.fileSeq",
        "statistics.BaseCollector.enabled",          # singleton.enabled = true in every statistics.NewXxx()
        "statistics.MergeStatistics.itemCurrentOutOfOrderFile",   # gauge written by every merger goroutine
        "errno.stackStat",                           # per-errno time stamp that throttles stack logging
        "scheduler.TaskGroup.ref",
    ],
    "C04-race-merge-and-compaction-iterators": [
        "immutable.MergePerformers.*", "immutable.mergePerformer.*", "immutable.ColumnIterator.*", "immutable.FileIterator.*",
        "immutable.ChunkIterators.*", "immutable.ChunkIterator.*", "immutable.tsspFileReader.*",
    ],
}
# reports whose object cannot be derived from the two source lines (no selector in common: an element of a reused
# slice reached through different variables): innermost repository functions of BOTH accesses must be in the set
RACE_FUNCS_FALLBACK = {
    "C04-race-snapshot-waitgroup-and-counters": [
        {"engine/index/tsi.(*IndexBuilder).CreateIndexIfNotExists", "engine/index/tsi.(*tsIndexImpl).run.func1"},
    ],
}
ORPHAN = "C04-orphaned-out-of-order-list"
REENTRY = "C04-reentrant-engine-rlock"
WGPANIC = "C04-close-waitgroup-reuse-panic"
STALE = "C04-stale-overwrite-in-flush-window"


def in_stale_signature(f, o):
    """stress: a `stale-value` report for a row that was an overwrite / late row when written (sig ooo-row), from a query
    that overlapped a flush (a forced flush was running when it started or ended, or one completed in between), in a round
    that lost no in-order row"""
    if f.get("kind") != "stale-value" or f.get("sig") != "ooo-row" or o.get("n_in_order_lost", 0) != 0:
        return False
    m = re.search(r"flush gen (\d+)\.\.(\d+) flushing (true|false)\.\.(true|false)", f.get("detail", ""))
    return bool(m and (m.group(1) != m.group(2) or "true" in (m.group(3), m.group(4))))


def in_wgpanic_signature(text):
    """process crash `sync: WaitGroup is reused before previous Wait has returned` raised by sync.(*WaitGroup).Wait
    called from immutable.(*MmsTables).Wait (DisableCompAndMerge / Close waiting for merges while one registers)"""
    m = re.search(r"panic: sync: WaitGroup is reused before previous Wait has returned(.*?)(?:\n\n|\Z)", text, re.S)
    return bool(m and re.search(r"sync\.\(\*WaitGroup\)\.Wait\([^\n]*\n[^\n]*\n[^\n]*immutable\.\(\*MmsTables\)\.Wait\(", m.group(1)))
# engine / partition level (coq/C04/Eng.v, harness/cmd/c04/eng.go): operations by the names of the harness -> EngCorr.opname
ENG_OPS = [("query", "Oquery"), ("write", "Owrite"), ("raftlookup", None), ("dropmst", "Odropmst"), ("delmst", "Odelmst"),
           ("flush", "Oflush"), ("dropdb", "Odropdb"), ("close", "Oclose"), ("delshard", "Odelshard")]
ENG_LOCKS = [("emu", 1), ("pmu", 2), ("smu", 3)]
ENG_REENTRY_OPS = ["query", "write", "raftlookup", "dropmst", "delmst", "flush"]
ENG_FINALES = ["close", "dropdb"]
ALWAYS_VIOLATION = {"duplicate-point", "torn-row", "value-never-written", "malformed-row", "panic", "close-deadlock",
                    "post-close-hang", "write-error", "query-error", "close-error", "harness"}
LOST_KINDS = {"missing-acked-point", "stale-value", "point-disappeared"}

SYSTEMS = {
    # name: (actor specs, how the schedules are produced)
    "A": ([("W", [5, 3]), ("F", 2), ("R", 1)], "enum"),
    "B": ([("W", [5, 3, 4]), ("F", 3), ("M",), ("R", 2)], "walk"),
    "C": ([("W", [6, 2]), ("W", [5, 3]), ("F", 2), ("R", 2)], "walk"),
    "D": ([("W", [5, 3, 4]), ("F", 2), ("M",), ("R", 2), ("C",)], "walk"),
    "E": ([("W", [5, 3, 4, 2]), ("F", 4), ("M",), ("R", 1), ("R", 1)], "walk"),
    # aggregate readers (kind A: count(v) on the pre-aggregation path; the model's count = distinct batches of the view)
    "G": ([("W", [5, 3]), ("F", 2), ("A", 1)], "enum"),
    "H": ([("W", [5, 3, 4]), ("F", 3), ("M",), ("A", 2), ("R", 1)], "walk"),
}
# targeted families (always run completely): (1) every interleaving of the 4 flush steps and the 3 steps of an
# out-of-order merge after "5 flushed in order, 3 flushed out of order, 4 written" (the flush carries an out-of-order
# batch and can land between any two critical sections of the merge, in particular between the two sections of its
# tail); (2) a forced flush requested while the shard's own background snapshot is in flight: the model says the swap
# is disabled (single snapshot slot), the implementation must block (negative probe, entry -(actor+1))
MF = {"sys": [("W", [5, 3, 4]), ("F", 3), ("M",), ("R", 1)],
      "prefix": [0, 0, 1, 1, 1, 1, 0, 0, 1, 1, 1, 1, 0, 0], "allowed": [1, 2], "tail": [3, 3, 3, 3, 3]}
BG = {"sys": [("W", [5, 3]), ("B", 1), ("F", 1), ("R", 1)],
      "scheds": [[0, 0, 1, -3, 0, 0, 1, 1, 1, 2, 2, 2, 2, 3, 3, 3, 3, 3],
                 [0, 0, 1, 1, -3, 1, 1, 0, 0, 2, 2, 2, 2, 3, 3, 3, 3, 3],
                 [0, 0, 1, 1, 1, -3, 0, 0, 3, 3, 3, 3, 3, 1, 2, 2, 2, 2]]}
OW = {"OW1": [("W", [5, 1005]), ("F", 1), ("R", 1)], "OW2": [("W", [5, 1005]), ("F", 2), ("R", 1)]}
MFA = {"sys": [("W", [5, 3, 4]), ("F", 3), ("M",), ("A", 1)]}   # family MF again with an aggregate reader
WITNESS = {"sys": [("W", [5, 3, 4]), ("F", 3), ("M",), ("R", 1)],
           "sched": [0, 0, 1, 1, 1, 1, 0, 0, 1, 1, 1, 1, 0, 0, 1, 1, 2, 2, 2, 1, 1, 3, 3, 3, 3, 3]}


def coq_spec(a):
    if a[0] == "W":
        return "SW [%s]" % "; ".join(str(b) for b in a[1])
    if a[0] in ("R", "A"):      # an aggregate reader takes the same steps as a row reader
        return "SR %d" % a[1]
    if a[0] in ("F", "B"):      # the background snapshot is one more flusher of the model
        return "SF %d" % a[1]
    if a[0] == "M":
        return "SM"
    if a[0] == "C":
        return "SC"
    raise ValueError(a)


def json_spec(a):
    if a[0] == "W":
        return {"k": "W", "bs": a[1]}
    if a[0] in ("R", "A", "F", "B"):
        return {"k": a[0], "n": a[1]}
    return {"k": a[0]}


def coq_nats(l):
    return "[" + "; ".join(str(x) for x in l) + "]"


def parse_nested(txt):
    """Coq-printed nested list of naturals -> python lists"""
    t = txt.replace(";", ",")
    t = re.sub(r"\s+", "", t)
    return json.loads(t)


class Rng:
    def __init__(self, seed):
        self.s = (seed * 0x9E3779B97F4A7C15 + 0xC04) & (2**64 - 1)

    def next(self):
        self.s = (self.s + 0x9E3779B97F4A7C15) & (2**64 - 1)
        z = self.s
        z = ((z ^ (z >> 30)) * 0xBF58476D1CE4E5B9) & (2**64 - 1)
        z = ((z ^ (z >> 27)) * 0x94D049BB133111EB) & (2**64 - 1)
        return z ^ (z >> 31)

    def intn(self, n):
        return self.next() % n


def strip_for_repaired(specs, sched):
    """the harness layout has 4 model steps per flush (variant `current`); the repaired machine has 3: drop the
    'fetch list object' step (2nd of every flush cycle)"""
    cnt = {}
    out = []
    for i in sched:
        if i < 0:
            continue
        k = cnt.get(i, 0)
        cnt[i] = k + 1
        if specs[i][0] in ("F", "B") and k % 4 == 1:
            continue
        out.append(i)
    return out


def no_probes(sched):
    return [i for i in sched if i >= 0]


def truncate_after_close(specs, sched):
    out = []
    seen_close = 0
    for i in sched:
        if specs[i][0] == "C":
            seen_close += 1
            out.append(i)
            if seen_close == 5:
                break
            continue
        if seen_close:
            break
        out.append(i)
    return out


def sched_oracle(specs, sched, results):
    """DIRECT ORACLE on a forced schedule: every batch whose write call returned before a query's first step is in
    that query's result (queries that start before the close); an aggregate reader's count(v) is at least the number
    of those batches and at most the number of batches written before its last step (each (series, time) at most once).
    Returns list of (reader, query index, what)."""
    cnt = {}
    acked = []          # batches whose WriteRows returned, in schedule order
    closing = False
    fails = []
    qstart = {}         # (reader, qno) -> acked snapshot
    qend = {}
    for i in sched:
        if i < 0:
            continue
        k = cnt.get(i, 0)
        cnt[i] = k + 1
        kind = specs[i][0]
        if kind == "W" and k % 2 == 0 and not closing:
            acked.append(specs[i][1][k // 2])
        elif kind == "C":
            closing = True
        elif kind in ("R", "A") and k % 5 == 0 and not closing:
            qstart[(i, k // 5)] = list(acked)
        elif kind in ("R", "A") and k % 5 == 4 and (i, k // 5) in qstart:
            qend[(i, k // 5)] = list(acked)
    for (r, q), need in sorted(qstart.items()):
        res = results.get(str(r), [])
        if q >= len(res):
            continue
        if specs[r][0] == "A":
            c = (res[q] or [0])[0]
            if c < len(set(need)):
                fails.append((r, q, "count(v) = %d although %d batches %s were acknowledged before the query started" % (c, len(set(need)), sorted(set(need)))))
            elif (r, q) in qend and not closing and c > len(set(qend[(r, q)])):
                fails.append((r, q, "count(v) = %d although only %d batches %s had been written when the query ended: some (series, time) is counted more than once"
                              % (c, len(set(qend[(r, q)])), sorted(set(qend[(r, q)])))))
            continue
        miss = [b for b in need if b not in res[q]]
        if miss:
            fails.append((r, q, "misses acknowledged batch(es) %s" % miss))
    return fails


def ow_oracle(specs, sched, results):
    """DIRECT ORACLE of family OW (one point, time 5, written with value 5 and then 1005): a query that starts after the
    second write returned must show 1005; one that starts after the first must show 5 or (if the second write happened
    before it ended) 1005; never both, never a torn row.  Returns a description of the failure or None."""
    cnt = {}
    acked = []
    start = end = None
    reader = None
    for i in sched:
        k = cnt.get(i, 0)
        cnt[i] = k + 1
        kind = specs[i][0]
        if kind == "W" and k % 2 == 0:
            acked.append(specs[i][1][k // 2])
        elif kind == "R" and k % 5 == 0 and start is None:
            start, reader = list(acked), i
        elif kind == "R" and k % 5 == 4 and end is None:
            end = list(acked)
    if start is None:
        return None
    res = results.get(str(reader)) or []
    if not res:
        return None
    r = sorted(res[0] or [])
    if 1005 in start:
        ok = r == [1005]
    elif 5 in start:
        ok = r == [5] or (r == [1005] and 1005 in (end or []))
    else:
        ok = r in ([], [5]) or (r == [1005] and 1005 in (end or []))
    if ok:
        return None
    return "the query returned value(s) %s for the point; writes returned before it started: %s, before it ended: %s" % (r, start, end)


def in_orphan_signature(specs, sched):
    """signature of C04-orphaned-out-of-order-list on a forced schedule: the map-delete step of an out-of-order merge
    (3rd step of a merge actor) falls between the 'fetch list objects' step (2nd) and the 'append' step (3rd) of a
    flush"""
    cnt = {}
    fetched = set()   # flushers that have fetched the list object and not yet appended
    for i in sched:
        if i < 0:
            continue
        k = cnt.get(i, 0)
        cnt[i] = k + 1
        kind = specs[i][0]
        if kind in ("F", "B"):
            if k % 4 == 1:
                fetched.add(i)
            elif k % 4 == 2:
                fetched.discard(i)
        elif kind == "M" and k == 2 and fetched:
            return True
    return False


_struct_cache = {}
_pkgvar_cache = {}
SYNC_METHODS = {"Wait", "Add", "Done", "Lock", "Unlock", "RLock", "RUnlock", "Store", "Load", "Swap", "CompareAndSwap"}


def _pkg_files(pkgdir):
    try:
        return [os.path.join(pkgdir, f) for f in sorted(os.listdir(pkgdir)) if f.endswith(".go") and not f.endswith("_test.go")]
    except OSError:
        return []


def structs_of(pkgdir):
    """struct name -> set of field names (incl. embedded type names), from the package's sources"""
    if pkgdir in _struct_cache:
        return _struct_cache[pkgdir]
    res = {}
    for f in _pkg_files(pkgdir):
        t = open(f, errors="replace").read()
        for m in re.finditer(r"\ntype\s+(\w+)\s+struct\s*\{(.*?)\n\}", t, re.S):
            fields = set()
            for ln in m.group(2).split("\n"):
                ln = ln.split("//")[0].strip()
                if not ln:
                    continue
                mm = re.match(r"^([\w,\s]+?)\s+[\*\[\]\w\.\(\{<]", ln)
                if mm:
                    fields.update(n.strip() for n in mm.group(1).split(",") if re.fullmatch(r"\w+", n.strip()))
                else:
                    mm = re.match(r"^\*?(?:\w+\.)?(\w+)$", ln)
                    if mm:
                        fields.add(mm.group(1))
            res.setdefault(m.group(1), set()).update(fields)
    _struct_cache[pkgdir] = res
    return res


def pkgvars_of(pkgdir):
    if pkgdir in _pkgvar_cache:
        return _pkgvar_cache[pkgdir]
    res = set()
    for f in _pkg_files(pkgdir):
        t = open(f, errors="replace").read()
        res.update(re.findall(r"^var\s+(\w+)\b", t, re.M))
        for blk in re.findall(r"^var\s*\((.*?)^\)", t, re.S | re.M):
            res.update(re.findall(r"^\s+(\w+)\b", blk, re.M))
    _pkgvar_cache[pkgdir] = res
    return res


def _frames(block):
    lines = block.strip().split("\n")
    out = []
    for i in range(1, len(lines) - 1, 2):
        m = re.match(r"(.*):(\d+)$", lines[i + 1].strip().split(" +")[0])
        if m:
            out.append((re.sub(r"\(\)$", "", lines[i].strip()), m.group(1), int(m.group(2))))
    return out


def _side(block):
    """innermost repository frame of one access: (function, file, line, set of (owner struct or None, name), set of indexed package vars)"""
    for fn, path, ln in _frames(block):
        if "openGemini/openGemini/" not in fn:
            continue
        try:
            L = open(path, errors="replace").read().split("\n")
        except OSError:
            return fn.split("openGemini/openGemini/", 1)[1], path, ln, set(), set()
        line = (L[ln - 1] if 0 < ln <= len(L) else "").split("//")[0]
        recv = None
        for i in range(min(ln, len(L)) - 1, -1, -1):
            m = re.match(r"^func \((\w+) \*?(\w+)(?:\[.*\])?\)", L[i])
            if m:
                recv = (m.group(1), m.group(2))
                break
            if re.match(r"^func ", L[i]):
                break
        cands = set()
        for sel in re.findall(r"[A-Za-z_]\w*(?:\.[A-Za-z_]\w*)+", line):
            parts = sel.split(".")
            if parts[-1] in SYNC_METHODS and len(parts) >= 3:
                parts = parts[:-1]          # m.wg.Wait -> the object is m.wg
            for k in range(1, len(parts)):
                owner = recv[1] if (recv and k == 1 and parts[0] == recv[0]) else None
                cands.add((owner, parts[k]))
        pv = pkgvars_of(os.path.dirname(path))
        indexed = {v for v in re.findall(r"\b([A-Za-z_]\w*)\[", line) if v in pv}
        return fn.split("openGemini/openGemini/", 1)[1], path, ln, cands, indexed
    return None


def race_object(text):
    """'pkg.Type.field' / 'pkg.TypeA|TypeB.field' / 'pkg.var' of a race report, None if it cannot be derived"""
    blocks = re.split(r"\n\s*\n", text.strip())
    if len(blocks) < 2:
        return None
    a, b = _side(blocks[0]), _side(blocks[1])
    if not a or not b:
        return None
    pkg = os.path.basename(os.path.dirname(a[1]))
    if a[4] & b[4]:
        return "%s.%s" % (pkg, sorted(a[4] & b[4])[0])
    common = {f for _, f in a[3]} & {f for _, f in b[3]}
    best = None
    for f in sorted(common):
        owners = {o for o, ff in (a[3] | b[3]) if ff == f and o}
        if not owners:
            for path in (a[1], b[1]):
                owners.update(sn for sn, fields in structs_of(os.path.dirname(path)).items() if f in fields)
        cand = (0 if len(owners) == 1 else 1, -len(f), "%s.%s.%s" % (pkg, "|".join(sorted(owners)) if owners else "?", f))
        if best is None or cand < best:
            best = cand
    return best[2] if best else None


def go_build_race(ck):
    """the -race stress binary, built WITHOUT inlining (-gcflags=all=-l): the race detector's stacks then name the
    function that really performs each access (an inlined accessor such as tsspFileReader.Unref would otherwise be
    attributed to its caller's line, from which the racing object cannot be derived)"""
    import sys
    sys.path.insert(0, os.path.join(ck.verif, "lib", "py"))
    import vlib
    flags = vlib.ensure_gomod()
    os.makedirs(os.path.join(ck.build, "bin"), exist_ok=True)
    outp = os.path.join(ck.build, "bin", "c04-race")
    cmd = ["go", "build"] + flags + ["-race", "-gcflags=all=-l", "-tags", "verif", "-o", outp, "./cmd/c04"]
    with vlib.Lock(os.path.join(ck.build, "go-c04-race.lock")):
        rc, out = vlib.sh(cmd, cwd=vlib.HARNESS, env=vlib.goenv(), timeout=2400)
    if rc != 0:
        ck.broken.append("harness build failed: ./cmd/c04 (-race)")
        ck.log("GO BUILD FAILED ./cmd/c04 -race")
        ck.log(out[-4000:])
        return None
    return outp


def race_reports(text):
    reps = []
    for r in text.split("WARNING: DATA RACE")[1:]:
        r = r.split("==================")[0]
        blocks = re.split(r"\n\s*\n", r.strip())
        sides = []
        for b in blocks[:2]:
            lines = b.strip().split("\n")
            fn, loc = "?", "?"
            for i in range(1, len(lines) - 1, 2):
                f = lines[i].strip()
                if "openGemini/openGemini/" in f:
                    fn = re.sub(r"\(\)$", "", f.split("openGemini/openGemini/", 1)[1])
                    loc = lines[i + 1].strip().split(" +")[0]
                    break
            sides.append((lines[0].strip().split(" at ")[0], fn, loc))
        while len(sides) < 2:
            sides.append(("?", "?", "?"))
        try:
            obj = race_object(r)
        except Exception as e:          # never read a failure of the extractor as "known"
            obj = None
        reps.append({"a": sides[0], "b": sides[1], "obj": obj, "text": "WARNING: DATA RACE" + r[:6000]})
    return reps


def object_matches(obj, pattern):
    if obj is None:
        return False
    parts = obj.split(".")
    pp = pattern.split(".")
    if len(parts) == 2 or len(pp) == 2:
        return obj == pattern
    if parts[0] != pp[0] or pp[1] not in parts[1].split("|"):
        return False
    return pp[2] == "*" or pp[2] == parts[2]


def classify_race(rep):
    """finding id whose signature covers the report's racing object, else None"""
    if rep.get("obj"):
        for fid, pats in RACE_OBJECTS.items():
            if any(object_matches(rep["obj"], p) for p in pats):
                return fid
        return None
    fns = {rep["a"][1], rep["b"][1]}
    for fid, sets in RACE_FUNCS_FALLBACK.items():
        if any(fns <= st for st in sets):
            return fid
    return None


def gen_schedules(ck, n_enum, n_walk, rng, n_ow=20):
    """ask the Coq machine for schedules: full enumeration of system A (sampled), model-guided random walks else"""
    defs = []
    order = []
    for name, (specs, how) in sorted(SYSTEMS.items()):
        sp = "[" + "; ".join(coq_spec(a) for a in specs) + "]"
        if how == "enum":
            defs.append("Definition S_%s := Eval vm_compute in enum_sys %s 30.\nPrint S_%s." % (name, sp, name))
        else:
            choices = [[rng.intn(997) for _ in range(60)] for _ in range(n_walk)]
            cl = "[" + "; ".join(coq_nats(c) for c in choices) + "]"
            defs.append("Definition S_%s := Eval vm_compute in map (walk_sys %s) %s.\nPrint S_%s." % (name, sp, cl, name))
        order.append(name)
    # family OW (overwrites): a batch b >= 1000 rewrites the point at time b % 1000 with value b; every interleaving the
    # model enables of {write 5, write 1005} x {1 or 2 flushes} x {one query}; direct oracle only (last write wins)
    for nm, specs in sorted(OW.items()):
        defs.append("Definition S_%s := Eval vm_compute in enum_sys [%s] 30.\nPrint S_%s." % (nm, "; ".join(coq_spec(a) for a in specs), nm))
    sp = "[" + "; ".join(coq_spec(a) for a in MF["sys"]) + "]"
    defs.append("Definition S_MF := Eval vm_compute in enum_from %s %s %s 12.\nPrint S_MF."
                % (sp, coq_nats(MF["prefix"]), coq_nats(MF["allowed"])))
    # the negative probes of family BG: the model must say "disabled" at each probe
    sp = "[" + "; ".join(coq_spec(a) for a in BG["sys"]) + "]"
    probes = []
    for sc in BG["scheds"]:
        for pos, i in enumerate(sc):
            if i < 0:
                probes.append("blocked_after %s %s %d" % (sp, coq_nats(no_probes(sc[:pos])), -i - 1))
    defs.append("Definition P_BG := Eval vm_compute in [%s].\nPrint P_BG." % "; ".join(probes))
    txt = ("From Coq Require Import List Arith.\nFrom OG Require Import C04.Model C04.Corr.\nImport ListNotations.\n"
           + "\n".join(defs) + "\n")
    rc, out = ck.coq_eval("gen_sched", txt, timeout=600)
    if rc != 0:
        ck.broken.append("schedule generation by the model failed: " + out[-400:])
        return []
    cases = []
    for name in order:
        m = re.search(r"S_%s\s*=\s*(\[.*?\])\s*:\s*list" % name, out, re.S)
        if not m:
            ck.broken.append("could not parse schedules of system " + name)
            continue
        scheds = parse_nested(m.group(1))
        specs, how = SYSTEMS[name]
        if how == "enum":
            total = len(scheds)
            pick = set()
            while len(pick) < min(n_enum, total):
                pick.add(rng.intn(total))
            scheds = [scheds[i] for i in sorted(pick)]
        seen = set()
        for s in scheds:
            s = truncate_after_close(specs, s)
            key = (name, tuple(s))
            if not s or key in seen:
                continue
            seen.add(key)
            cases.append({"sys": name, "specs": specs, "sched": s, "tag": name})
    for nm, specs in sorted(OW.items()):
        m = re.search(r"S_%s\s*=\s*(\[.*?\])\s*:\s*list" % nm, out, re.S)
        ows = parse_nested(m.group(1)) if m else []
        if len(ows) < 100:
            ck.broken.append("family %s (overwrite interleavings) was not enumerated: %d schedules" % (nm, len(ows)))
        pick = set(range(len(ows)))
        if n_ow < len(ows):
            pick = set()
            while len(pick) < n_ow:
                pick.add(rng.intn(len(ows)))
        for k in sorted(pick):
            cases.append({"sys": nm, "specs": specs, "sched": ows[k], "tag": nm, "ow": True})
    m = re.search(r"S_MF\s*=\s*(\[.*?\])\s*:\s*list", out, re.S)
    mf = parse_nested(m.group(1)) if m else []
    if len(mf) < 30:
        ck.broken.append("family MF (flush x merge interleavings) was not enumerated: %d schedules" % len(mf))
    for s in mf:
        cases.append({"sys": "MF", "specs": MF["sys"], "sched": s + MF["tail"], "tag": "MF"})
    for s in mf:
        cases.append({"sys": "MFA", "specs": MFA["sys"], "sched": s + MF["tail"], "tag": "MFA"})
    m = re.search(r"P_BG\s*=\s*\[(.*?)\]\s*:\s*list", out, re.S)
    if not m or "false" in m.group(1) or "true" not in m.group(1):
        ck.broken.append("family BG: the model does not say 'disabled' at a negative probe: %s" % (m.group(1) if m else out[-300:]))
    else:
        for s in BG["scheds"]:
            cases.append({"sys": "BG", "specs": BG["sys"], "sched": s, "tag": "BG"})
    return cases


def eval_cases(ck, cases, variant):
    """run the Coq machine (given variant) on the forced cases; returns {case index: code}"""
    shard = 120
    files = []
    for i in range(0, len(cases), shard):
        chunk = cases[i:i + shard]
        items = []
        for c in chunk:
            specs = c["specs"]
            sched = no_probes(c["sched"]) if variant == "current" else strip_for_repaired(specs, c["sched"])
            sp = "[" + "; ".join(coq_spec(a) for a in specs) + "]"
            obs = "[" + "; ".join("(%s, [%s])" % (r, "; ".join(coq_nats(q) for q in qs))
                                   for r, qs in sorted(c["obs"].items(), key=lambda x: int(x[0])) if specs[int(r)][0] == "R") + "]"
            cobs = "[" + "; ".join("(%s, %s)" % (r, coq_nats([(q or [0])[0] for q in qs]))
                                    for r, qs in sorted(c["obs"].items(), key=lambda x: int(x[0])) if specs[int(r)][0] == "A") + "]"
            items.append("(%s, %s, (%s : list (nat * list (list nat))), (%s : list (nat * list nat)))" % (sp, coq_nats(sched), obs, cobs))
        txt = ("From Coq Require Import List Arith.\nFrom OG Require Import C04.Model C04.Corr.\nImport ListNotations.\n"
               "Definition cases : list case_a := [\n%s\n].\nDefinition M := Eval vm_compute in mismatches_a %s cases.\nPrint M.\n"
               % (";\n".join(items), "current" if variant == "current" else "correct"))
        files.append(("cases_%s_%d" % (variant, i // shard), txt))
    res = ck.coq_eval_many(files, timeout=600)
    codes = {}
    for idx, (rc, o) in enumerate(res):
        m = re.search(r"M\s*=\s*(.*?)\s*:\s*list", o, re.S)
        if rc != 0 or not m:
            ck.broken.append("model evaluation (%s) failed on shard %d: %s" % (variant, idx, o[-300:]))
            continue
        # Coq's printer may break a line right after an opening parenthesis ("(\n 105, 3)"): normalise first, and
        # fail closed if not every tuple of the printed list was understood
        flat = re.sub(r"%\w+", "", re.sub(r"\s+", "", m.group(1)))
        tups = re.findall(r"\((\d+),(\d+)\)", flat)
        if len(tups) != flat.count("(") or not re.fullmatch(r"\[(\(\d+,\d+\)(;\(\d+,\d+\))*)?\]", flat):
            ck.broken.append("model evaluation (%s): the mismatch list of shard %d could not be parsed completely: %s" % (variant, idx, flat[:300]))
            continue
        for a, b in tups:
            codes[idx * shard + int(a)] = int(b)
    return codes


def run_sched_cases(ck, binp, cases):
    path = os.path.join(ck.work, "sched_cases.jsonl")
    with open(path, "w") as f:
        for i, c in enumerate(cases):
            f.write(json.dumps({"id": i, "tag": c["tag"], "actors": [json_spec(a) for a in c["specs"]], "sched": c["sched"]}) + "\n")
    rc, out = ck.run([binp, "sched", path], timeout=1800)
    outs = {}
    done = False
    started = None
    for l in out.splitlines():
        if l.startswith('{"kind":"sched"'):
            o = json.loads(l)
            outs[o["id"]] = o
        elif l.startswith('{') and '"kind":"start"' in l:
            started = json.loads(l)["id"]
        elif l.startswith('{') and '"kind":"done"' in l:
            done = True
    m = re.search(r"(panic: .*|fatal error: .*)", out)
    if not done and m and started is not None and started not in outs and started < len(cases):
        c = cases[started]
        i0 = out.index(m.group(1))
        ck.violation({"kind": "forced-schedule-crash", "what": "the process crashed while forcing schedule %s: %s" % (c["tag"], m.group(1)),
                      "case": {"specs": c["specs"], "sched": c["sched"]}, "output": out[i0:i0 + 5000]})
        return outs
    if rc != 0 or not done or (len(outs) != len(cases) and not any(o.get("stuck") for o in outs.values())):
        ck.broken.append("forced-schedule harness failed rc=%d cases=%d/%d: %s" % (rc, len(outs), len(cases), out[-800:]))
    return outs


# ------------------------------------------------------------------------------------------------------------------
# engine / partition level

def eng_model_tables(ck):
    """what the Coq machine predicts for the probes: lock footprints, re-entry outcomes, drain observables"""
    names = ["Oquery", "Owrite", "Oraft", "Oraft_current", "Odropmst", "Odelmst", "Oflush", "Odropdb", "Oclose", "Odelshard"]
    rnames = ["Oquery", "Owrite", "Oraft", "Oraft_current", "Odropmst", "Odelmst", "Oflush"]
    txt = ("From Coq Require Import List Arith.\nFrom OG Require Import C04.Model C04.Eng C04.EngCorr.\nImport ListNotations.\n"
           "Definition FP := Eval vm_compute in map fp_row [%s].\nPrint FP.\n"
           "Definition RE := Eval vm_compute in map re_row [%s].\nPrint RE.\n"
           "Definition DR := Eval vm_compute in [drain_expect; drain_timeout_expect].\nPrint DR.\n"
           % ("; ".join(names), "; ".join(rnames)))
    rc, out = ck.coq_eval("eng_tables", txt, timeout=600)
    tabs = {}
    for nm in ("FP", "RE", "DR"):
        m = re.search(r"%s\s*=\s*(\[.*?\])\s*:\s*list" % nm, out, re.S)
        if rc != 0 or not m:
            ck.broken.append("engine-level model evaluation failed (%s): %s" % (nm, out[-300:]))
            return None
        tabs[nm] = parse_nested(m.group(1))
    return {"fp": dict(zip(names, tabs["FP"])), "re": dict(zip(rnames, tabs["RE"])), "drain": tabs["DR"][0], "timeout": tabs["DR"][1]}


def eng_probe_list():
    probes = []
    for op, _ in ENG_OPS:
        for lock, _k in ENG_LOCKS:
            for mode in ("W", "R"):
                probes.append({"kind": "footprint", "op": op, "lock": lock, "mode": mode})
    for op in ENG_REENTRY_OPS:
        for fin in ENG_FINALES:
            probes.append({"kind": "reentry", "op": op, "fin": fin})
    probes.append({"kind": "drain", "op": "wait"})
    probes.append({"kind": "drain", "op": "timeout"})
    for i, p in enumerate(probes):
        p["id"] = i
    return probes


def run_eng_probes(ck, binp, probes):
    path = os.path.join(ck.work, "eng_probes.jsonl")
    with open(path, "w") as f:
        for p in probes:
            f.write(json.dumps(p) + "\n")
    rc, out = ck.run([binp, "eng", path], timeout=1800)
    outs = {}
    done = False
    started = None
    for l in out.splitlines():
        if l.startswith('{"kind":"eng"'):
            o = json.loads(l)
            outs[o["id"]] = o
        elif l.startswith('{') and '"kind":"start"' in l:
            started = json.loads(l)["id"]
        elif l.startswith('{') and '"kind":"done"' in l:
            done = True
    m = re.search(r"(panic: .*|fatal error: .*)", out)
    if not done and m and started is not None and started not in outs and started < len(probes):
        i0 = out.index(m.group(1))
        ck.violation({"kind": "engine-probe-crash", "what": "the process crashed during engine-level probe %s: %s" % (json.dumps(probes[started]), m.group(1)),
                      "probe": probes[started], "output": out[i0:i0 + 5000]})
        return outs
    if rc != 0 or not done or len(outs) != len(probes):
        ck.broken.append("engine-level probe harness failed rc=%d probes=%d/%d: %s" % (rc, len(outs), len(probes), out[-800:]))
    return outs


def fp_code(o, lockidx):
    """observed footprint code in the encoding of EngCorr.enc_fp"""
    if not o.get("blocked"):
        return 0
    w = o.get("where", "")
    return 1 + 2 * lockidx + (1 if w.startswith("W@") else 0)


def in_reentry_signature(o):
    """signature of C04-reentrant-engine-rlock: re-entry probe of the partition lookup of WriteToRaft
    (EngineImpl.checkAndGetDBPTInfo): after the stall inside DBPTInfo.ref the operation waits in EngineImpl.unrefDBPT for
    EngineImpl.mu.RLock while the finale waits for EngineImpl.mu.Lock"""
    p = o.get("probe", {})
    obs = o.get("obs") or {}
    return (p.get("kind") == "reentry" and p.get("op") == "raftlookup" and o.get("blocked")
            and "(*EngineImpl).unrefDBPT" in o.get("where", "") and o.get("where", "").startswith("R@")
            and str(obs.get("finale_after_release", "")).startswith("W@") and "(*EngineImpl)" in str(obs.get("finale_after_release", "")))


def eng_level(ck, binp, only=None):
    """engine / partition level correspondence + direct oracle (no deadlock, no crash, references protect)"""
    model = eng_model_tables(ck)
    if model is None:
        return None
    probes = eng_probe_list() if only is None else only
    outs = run_eng_probes(ck, binp, probes)
    lockidx = dict(ENG_LOCKS)
    coqname = dict(ENG_OPS)
    n_ok = 0
    variant = None
    mism = []
    for p in probes:
        o = outs.get(p["id"])
        if o is None:
            continue
        err = o.get("err") or ""
        if "PANIC" in err:
            ck.violation({"kind": "engine-probe-panic", "what": err[:4000], "probe": p})
            continue
        if "did not finish" in err or "did not return" in err or "did not give up" in err:
            ck.violation({"kind": "engine-deadlock", "what": "engine-level probe %s: %s" % (json.dumps(p), err[:4000]), "probe": p})
            continue
        if err:
            ck.broken.append("engine-level probe %s could not be carried out: %s" % (json.dumps(p), err[:300]))
            ck.nofail_detail = {"kind": "engine-probe", "probe": p, "harness": o}
            continue
        if p["kind"] == "footprint":
            got = fp_code(o, lockidx[p["lock"]])
            col = 2 * (lockidx[p["lock"]] - 1) + (0 if p["mode"] == "W" else 1)
            cands = [coqname[p["op"]]] if coqname[p["op"]] else ["Oraft", "Oraft_current"]
            if any(model["fp"][c][col] == got for c in cands):
                n_ok += 1
            else:
                mism.append((p, o, "lock footprint: the model says code %s, the engine shows %d (0 = finishes, else 1+2*lock+writer)"
                             % ([model["fp"][c][col] for c in cands], got)))
        elif p["kind"] == "reentry":
            obs = o.get("obs") or {}
            op_done = not o.get("blocked")
            fin_done = op_done or not str(obs.get("finale_after_release", "")).startswith(("W@", "R@"))
            got = (2 if op_done else 0) + (1 if fin_done else 0)
            col = ENG_FINALES.index(p["fin"])
            if p["op"] == "raftlookup":
                cur, rep = model["re"]["Oraft_current"][col], model["re"]["Oraft"][col]
                if cur != rep:
                    if got == rep:
                        variant = variant or "repaired"
                    elif got == cur:
                        variant = "current"
                ok = got in (cur, rep)
            else:
                ok = got == model["re"][coqname[p["op"]]][col]
            if not op_done:
                # DIRECT ORACLE: an operation and a close / drop in flight block each other for ever
                what = ("engine-level re-entry probe: operation `%s` stalled in its partition lookup, `%s` started and waits for "
                        "EngineImpl.mu.Lock, the operation then waits at %s while the finale waits at %s: deadlock"
                        % (p["op"], p["fin"], o.get("where"), obs.get("finale_after_release")))
                if in_reentry_signature(o) and ck.match_finding(REENTRY):
                    ck.known_finding(REENTRY, what)
                else:
                    ck.violation({"kind": "engine-deadlock", "what": what, "probe": p, "observed": obs})
            elif ok:
                n_ok += 1
            else:
                mism.append((p, o, "re-entry probe: the model says code %s, the engine shows %d" % (model["re"].get(coqname[p["op"]] or "Oraft"), got)))
        elif p["kind"] == "drain":
            obs = o.get("obs") or {}
            if p["op"] == "wait":
                got = [obs.get("refs_while_query"), 1 if obs.get("drop_waits_at") == "drain" else 0, int(bool(obs.get("offloading_while_waiting"))),
                       int(bool(obs.get("ref_while_offloading_ok"))), int(bool(obs.get("dir_present_while_waiting"))),
                       1 if (obs.get("drop_err") == "<nil>" and obs.get("query_err") == "<nil> <nil>") else 0,
                       int(bool(obs.get("partition_present_after"))), int(bool(obs.get("dir_present_after"))),
                       int(bool(obs.get("ref_after_drop_ok"))), 0 if not obs.get("write_after_drop_ok") else 1]
                want = model["drain"]
            else:
                got = [int(bool(obs.get("offloading_after_timeout"))), int(bool(obs.get("ref_after_timeout_ok"))), 1, 1,
                       1 if obs.get("query_err") == "<nil> <nil>" and obs.get("drop_err") not in (None, "<nil>") else 0]
                want = model["timeout"]
            if (p["op"] == "wait" and (obs.get("refs_while_query") or 0) >= 1
                    and (obs.get("drop_waits_at") == "done" or obs.get("dir_present_while_waiting") is False)):
                # DIRECT ORACLE: the drop went ahead although an operation in flight held its partition reference
                ck.violation({"kind": "engine-drop-under-reference",
                              "what": "DeleteDatabase %s while a query in flight held a partition reference (exeCount %s): "
                                      "observed %s" % ("finished" if obs.get("drop_waits_at") == "done" else "deleted the partition directory",
                                                       obs.get("refs_while_query"), json.dumps(obs)[:1500]),
                              "probe": p})
            elif got == want:
                n_ok += 1
            else:
                mism.append((p, o, "drain probe: the model says %s, the engine shows %s" % (want, got)))
    if mism and not ck.violations:
        p, o, why = mism[0]
        ck.broken.append("correspondence C04 (engine level): %d probe(s) disagree with the model; first: %s - %s" % (len(mism), json.dumps(p), why))
        ck.nofail_detail = {"kind": "engine-correspondence", "probe": p, "harness": o, "why": why}
    ck.cov["evaluations"] += len(outs)
    ck.cov["engine_probes"] = {"run": len(outs), "agree": n_ok, "tree_variant": variant}
    ck.notes.append("engine level: %d probes run, %d agree with the model; partition lookup of WriteToRaft implements: %s"
                    % (len(outs), n_ok, variant or "undetermined"))
    return variant


def main(ck):
    ck.assumptions += [
        "PARTIAL: data races below lock granularity, Go memory-model effects, scheduler timing and pooled-object reuse are "
        "outside the Gallina model; they are exercised by the -race stress run and its direct oracle, which support the "
        "search for a failing schedule and are not theorems",
        "model granularity: every step is one critical section (lock acquire..release); Go RWMutex writer preference "
        "(a blocked Lock() blocks later RLock()s) is not modelled - no actor re-enters a read lock it already holds",
        "one measurement, TSSTORE engine, no shelf mode, no down-sampling, no hierarchical storage; batch = one row",
        "forced schedules use lib/verifhook.Yield points (add-only, no-op without the build tag) to park goroutines; a "
        "query's tail (memtable refs, reading, unref), a write (append+ack) and a close are forced as adjacent steps",
    ]
    ck.cov["trusted_base"] = ["Coq 8.16.1 kernel + vm_compute (witnesses, schedule enumeration, cases evaluation)",
                              "no axioms (Print Assumptions: closed)", "Go race detector (stress only)",
                              "Go harness cmd/c04, engine/verif_export_c04.go, lib/verifhook, python driver props/C04/run.py"]
    thorough = ck.tier == "thorough"
    if getattr(ck, "replay", None):
        return replay(ck)

    ck.coq_audit(["C04"])
    ok = ck.coq_build(["C04/Props.vo", "C04/Mutants.vo", "C04/Refuted.vo", "C04/Corr.vo", "C04/EngCorr.vo"], timeout=2400)
    if ok:
        ck.coq_props(["C04/Props.v", "C04/Mutants.v", "C04/Refuted.v"])
    bin_sched = ck.go_build("./cmd/c04", "c04-sched")
    bin_race = go_build_race(ck)
    if not bin_sched or not bin_race:
        return

    # ---------------------------------------------------------------- (a) model-guided forced schedules
    rng = Rng(ck.seed)
    variant = None
    if ok:
        cases = [{"sys": "W", "specs": WITNESS["sys"], "sched": WITNESS["sched"], "tag": "witness-orphaned-list"}]
        corp = os.path.join(ck.verif, "corpus", PID)
        for fn in sorted(os.listdir(corp)) if os.path.isdir(corp) else []:
            if fn.endswith(".case"):
                c = json.load(open(os.path.join(corp, fn)))
                cases.append({"sys": "corpus", "specs": [tuple(a) for a in c["specs"]], "sched": c["sched"], "tag": "corpus:" + fn})
        cases += gen_schedules(ck, 300 if thorough else 40, 220 if thorough else 20, rng, n_ow=10**6 if thorough else 20)
        ck.log("forced schedules:", len(cases))
        outs = run_sched_cases(ck, bin_sched, cases)
        good = []
        for i, c in enumerate(cases):
            o = outs.get(i)
            if o is None:
                continue
            c["out"] = o
            nq = {}
            cnt = {}
            for a in c["sched"]:
                if a >= 0:
                    cnt[a] = cnt.get(a, 0) + 1
            for a, sp in enumerate(c["specs"]):
                if sp[0] in ("R", "A"):
                    nq[str(a)] = cnt.get(a, 0) // 5
            if o.get("probe_fail"):
                ck.broken.append("forced schedule %d (%s): %s" % (i, c["tag"], o["probe_fail"]))
                ck.nofail_detail = {"kind": "enabledness", "case": {"specs": c["specs"], "sched": c["sched"]}, "harness": o}
            c["obs"] = {r: [q or [] for q in (o["results"].get(r) or [])][:n] for r, n in nq.items()}
            if o.get("stuck") or o.get("err"):
                if "PANIC" in (o.get("err") or ""):
                    n_panic = getattr(ck, "_c04_panics", 0)
                    ck._c04_panics = n_panic + 1
                    if n_panic < 2:
                        ck.violation({"kind": "forced-schedule-panic", "case": {"specs": c["specs"], "sched": c["sched"]}, "what": o["err"][:4000]})
                else:
                    ck.broken.append("forced schedule %d (%s) could not be forced on the implementation: %s" % (i, c["tag"], (o.get("err") or "")[:300]))
                    ck.nofail_detail = {"kind": "forced-schedule", "case": {"specs": c["specs"], "sched": c["sched"]}, "harness": o}
                continue
            if c.get("ow"):
                # overwrite family: not comparable with the set-valued model view; direct oracle (last write wins)
                n_ow_run = getattr(ck, "_c04_ow", 0) + 1
                ck._c04_ow = n_ow_run
                why = ow_oracle(c["specs"], c["sched"], c["obs"])
                if why and len(ck.violations) < 3:
                    ck.violation({"kind": "direct-oracle", "what": "forced schedule %s (overwrite of one point): %s" % (c["tag"], why),
                                  "case": {"specs": c["specs"], "sched": c["sched"]}, "views": c["obs"], "trace": o["trace"]})
                continue
            good.append(i)
        ck.cov["overwrite_schedules"] = getattr(ck, "_c04_ow", 0)
        # canary of the evaluation + parsing path: 24 copies of an agreeing case with one view falsified must ALL come
        # back as mismatches (long mismatch lists are what Coq's printer wraps)
        src = next((cases[i] for i in good if any(cases[i]["specs"][int(r)][0] == "R" and qs for r, qs in cases[i]["obs"].items())), None)
        if src is not None:
            bad_obs = {r: ([list(qs[0]) + [999]] + list(qs[1:]) if (src["specs"][int(r)][0] == "R" and qs) else qs) for r, qs in src["obs"].items()}
            canary = eval_cases(ck, [dict(src, obs=bad_obs) for _ in range(24)], "repaired")
            if sorted(canary) != list(range(24)) or any(v not in (1, 2) for v in canary.values()):
                ck.broken.append("evaluation canary: %d of 24 falsified cases were reported as mismatches (%s)" % (len(canary), sorted(canary)[:30]))
        cur = eval_cases(ck, [cases[i] for i in good], "current")
        rep = eval_cases(ck, [cases[i] for i in good], "repaired")
        n_cur = sum(1 for k in range(len(good)) if k not in cur)
        n_rep = sum(1 for k in range(len(good)) if k not in rep)
        distinguishing = [k for k in range(len(good)) if (k in cur) != (k in rep)]
        if n_rep == len(good):
            variant = "repaired"
        elif n_cur == len(good):
            variant = "current"
        ck.notes.append("forced schedules: %d run, %d agree with model variant `current`, %d with `repaired`, %d distinguish the two; "
                        "working tree implements: %s" % (len(good), n_cur, n_rep, len(distinguishing), variant or "NEITHER"))
        ck.cov["evaluations"] += len(good)
        ck.cov["traces_validated_against_impl"] = max(n_cur, n_rep)
        nontriv = set()
        hist = {}
        for i in good:
            c = cases[i]
            kinds = {c["specs"][a][0] for a in c["sched"] if a >= 0}
            if {"W", "F"} <= kinds and kinds & {"R", "A"}:
                nontriv.add((c["tag"], tuple(c["sched"])))
            hist[c["tag"].split(":")[0]] = hist.get(c["tag"].split(":")[0], 0) + 1
        ck.cov["distinct_nontrivial"] = len(nontriv)
        ck.cov["forced_schedule_systems"] = hist
        ck.cov["samples"] = [{"specs": cases[i]["specs"], "sched": cases[i]["sched"], "views": cases[i]["obs"]} for i in good[:3]]
        # direct oracle on the forced schedules
        oracle_failed = False
        for i in good:
            c = cases[i]
            fails = sched_oracle(c["specs"], c["sched"], c["obs"])
            if not fails:
                continue
            oracle_failed = True
            if len(ck.violations) >= 3:
                continue
            what = "forced schedule %s: query %d of reader %d %s" % (c["tag"], fails[0][1], fails[0][0], fails[0][2])
            if in_orphan_signature(c["specs"], c["sched"]) and ck.match_finding(ORPHAN):
                ck.known_finding(ORPHAN, "a flush that fetched the out-of-order list object before an out-of-order merge deleted it "
                                         "appends its file to the orphaned object; queries miss acknowledged points (%s)" % what)
            else:
                ck.violation({"kind": "direct-oracle", "what": what, "case": {"specs": c["specs"], "sched": c["sched"]},
                              "views": c["obs"], "trace": c["out"]["trace"]})
        if variant is None and not oracle_failed:
            # neither variant explains every case: report a case that disagrees with both if there is one, else the
            # first case that disagrees with `repaired` (never end with "NEITHER" and exit 0)
            k = next((k for k in range(len(good)) if k in cur and k in rep), None)
            if k is None:
                k = next((k for k in range(len(good)) if k in rep), None)
            if k is None and good:
                k = next((k for k in range(len(good)) if k in cur), None)
            if k is not None:
                c = cases[good[k]]
                ck.broken.append("correspondence C04: the views of forced schedule %s agree with %s" % (
                    c["tag"], "neither model variant" if (k in cur and k in rep) else "no single model variant over the whole run (this case disagrees with `%s`)" % ("repaired" if k in rep else "current")))
                ck.nofail_detail = {"kind": "correspondence", "case": {"specs": c["specs"], "sched": c["sched"]}, "views": c["obs"],
                                    "trace": c["out"]["trace"], "model_code_current": cur.get(k), "model_code_repaired": rep.get(k)}
        elif variant is None and oracle_failed and not ck.violations:
            # the failing cases are explained by the known finding; every other case must agree with `current`
            bad = [k for k in range(len(good)) if k in cur]
            if bad:
                c = cases[good[bad[0]]]
                ck.broken.append("correspondence C04: forced schedule %s disagrees with model variant `current`" % c["tag"])
                ck.nofail_detail = {"kind": "correspondence", "case": {"specs": c["specs"], "sched": c["sched"]}, "views": c["obs"]}

    # ---------------------------------------------------------------- (a2) engine / partition level probes
    if ok:
        ck.cov["engine_variant"] = eng_level(ck, bin_sched)

    # ---------------------------------------------------------------- (b) free-running stress under the race detector
    rounds, ms = (30, 20000) if thorough else (2, 8000)
    racelog = os.path.join(ck.work, "race")
    senv = {"GORACE": "halt_on_error=0 log_path=%s" % racelog}
    if ck.cov.get("engine_variant") == "current" and ck.match_finding(REENTRY):
        # the tree is known (re-entry probe above) to deadlock when a WriteToRaft partition lookup meets Engine.Close:
        # leave the lookups out of the engine rounds so that the rounds are not aborted by the known defect
        senv["C04_SKIP_RAFT_LOOKUPS"] = "1"
        ck.notes.append("stress: WriteToRaft partition lookups left out of the engine rounds (known open finding %s)" % REENTRY)
    rc, out = ck.run([bin_race, "stress", str(rounds), str(ms)], timeout=rounds * (ms / 1000.0 + 150) + 600, env=senv)
    srounds = [json.loads(l) for l in out.splitlines() if l.startswith('{"kind":"stress"')]
    finished = any(l.startswith("{") and '"kind":"done"' in l for l in out.splitlines())
    if not finished or len(srounds) != rounds:
        m = re.search(r"(panic: .*|fatal error: .*)", out)
        if m and in_wgpanic_signature(out[out.index(m.group(1)):]) and ck.match_finding(WGPANIC):
            ck.known_finding(WGPANIC, "the stress process crashed in round %d: %s in MmsTables.Wait (DisableCompAndMerge of a close in flight "
                                      "while MergeOutOfOrder registered a merge goroutine)" % (len(srounds), m.group(1)))
        elif m:
            i = out.index(m.group(1))
            ck.violation({"kind": "crash", "what": "the stress process crashed: " + m.group(1), "output": out[i:i + 6000],
                          "rounds_completed": len(srounds)})
        else:
            ck.broken.append("stress harness failed rc=%d rounds=%d/%d: %s" % (rc, len(srounds), rounds, out[-600:]))
    tot = {"writes": 0, "acked": 0, "queries": 0, "rows_checked": 0, "flushes": 0, "compaction_calls": 0, "merge_calls": 0,
           "queries_overlapping_flush": 0, "queries_overlapping_compaction": 0, "queries_after_close": 0}
    lost_known = 0
    for o in srounds:
        for k in tot:
            tot[k] += o.get(k, 0)
        for f in o["failures"]:
            if f["kind"] in LOST_KINDS and f.get("sig") == "ooo-row" and o.get("n_in_order_lost", 0) == 0 and ck.match_finding(ORPHAN):
                lost_known += 1
                continue
            if in_stale_signature(f, o) and ck.match_finding(STALE):
                stale_known = getattr(ck, "_c04_stale", 0) + 1
                ck._c04_stale = stale_known
                if stale_known == 1:
                    ck.known_finding(STALE, "stress: " + f["detail"][:600])
                continue
            if (f["kind"] in ("close-deadlock", "post-close-hang") and ck.match_finding(REENTRY)
                    and re.search(r"sync\.\(\*RWMutex\)\.RLock\([^\n]*\n[^\n]*\n[^\n]*\(\*EngineImpl\)\.unrefDBPT\([^\n]*\n[^\n]*\n[^\n]*\(\*EngineImpl\)\.checkAndGetDBPTInfo\(", f["detail"])):
                ck.known_finding(REENTRY, "stress (engine round, finale %s): a WriteToRaft partition lookup waits in EngineImpl.unrefDBPT for "
                                          "EngineImpl.mu.RLock under its own read lock while the finale waits for the write lock" % o["cfg"].get("fin"))
                continue
            ck.violation({"kind": "stress-direct-oracle", "what": f["kind"] + ": " + f["detail"][:3000], "cfg": o["cfg"],
                          "failure": f, "round_totals": {k: o.get(k) for k in tot}})
            break
    if lost_known:
        ck.known_finding(ORPHAN, "stress: acknowledged out-of-order rows (late points / overwrites) vanished from later queries "
                                 "(%d oracle reports in %d rounds; every lost row was an out-of-order row)" % (lost_known, len(srounds)))
    ck.cov["evaluations"] += tot["queries"]
    ck.cov["stress"] = dict(tot, rounds=len(srounds), round_ms=ms,
                            close_ms=[o.get("close_ms") for o in srounds][:40], configs=[o["cfg"] for o in srounds][:6])
    # engine error log: panics recovered inside compaction/merge
    logp = os.path.join(ck.work, "c04-logs", "store.error.log")
    if os.path.exists(logp):
        txt = open(logp, errors="replace").read()
        m = re.search(r"[^\n]*(Compact Panic|Merge Panic|panic)[^\n]*", txt)
        if m:
            ck.violation({"kind": "engine-log-panic", "what": m.group(0)[:3000]})
    # race detector reports
    rtxt = ""
    d = os.path.dirname(racelog)
    for fn in sorted(os.listdir(d)):
        if fn.startswith("race."):
            rtxt += open(os.path.join(d, fn), errors="replace").read()
    if "WARNING: DATA RACE" in out:
        rtxt += out
    reps = race_reports(rtxt)
    by = {}
    unknown = []
    n_harness = 0
    for r in reps:
        if r["a"][1] == "?" and r["b"][1] == "?":
            n_harness += 1      # both accesses in harness code (bookkeeping of an abandoned round): not about the repository
            continue
        fid = classify_race(r)
        if fid and ck.match_finding(fid):
            by.setdefault(fid, []).append(r)
        else:
            unknown.append(r)
    for fid, rs in sorted(by.items()):
        objs = sorted({x.get("obj") or "(fallback) " + " <-> ".join(sorted([x["a"][1], x["b"][1]])) for x in rs})
        ck.known_finding(fid, "race detector: %d report(s) on object(s): %s" % (len(rs), "; ".join(objs)[:900]))
    seen = set()
    for r in unknown:
        key = tuple(sorted([r["a"][1], r["b"][1]]))
        if key in seen:
            continue
        seen.add(key)
        if len(seen) > 3:
            break
        ck.violation({"kind": "data-race", "what": "race detector report on an object no open finding covers: object %s; %s (%s) <-> %s (%s)"
                      % (r.get("obj") or "<not derivable from the source lines>", r["a"][1], r["a"][2], r["b"][1], r["b"][2]), "report": r["text"]})
    ck.cov["race_reports"] = {"total": len(reps), "known": {k: len(v) for k, v in by.items()}, "unknown": len(unknown), "harness_internal": n_harness}
    ck.cov["rule"] = ("forced schedules: model-guided (full enumeration of system A sampled, seeded random walks over the enabled "
                      "macro steps of systems B-E, plus the witness corpus); non-trivial = the schedule contains a write, a flush "
                      "step and a query; distinct = different (system, schedule). stress: queries checked by the direct oracle")
    ck.cov["tree_variant"] = variant


def replay(ck):
    rp = json.load(open(ck.replay))
    ok = ck.coq_build(["C04/Corr.vo", "C04/EngCorr.vo"])
    binp = ck.go_build("./cmd/c04", "c04-sched")
    if not binp:
        return
    if "probe" in rp:
        p = dict(rp["probe"])
        p["id"] = 0
        if ok:
            eng_level(ck, binp, only=[p])
        return
    if "case" in rp:
        c = {"specs": [tuple(a) for a in rp["case"]["specs"]], "sched": rp["case"]["sched"], "tag": "replay"}
        outs = run_sched_cases(ck, binp, [c])
        o = outs.get(0)
        ck.log("implementation:", json.dumps(o)[:3000])
        if o and ok:
            cnt = {}
            for a in c["sched"]:
                cnt[a] = cnt.get(a, 0) + 1
            c["obs"] = {str(a): [q or [] for q in (o["results"].get(str(a)) or [])][:cnt.get(a, 0) // 5] for a, sp in enumerate(c["specs"]) if sp[0] in ("R", "A")}
            cur = eval_cases(ck, [c], "current")
            rep = eval_cases(ck, [c], "repaired")
            ck.log("model `current` agrees:", 0 not in cur, " model `repaired` agrees:", 0 not in rep)
            fails = sched_oracle(c["specs"], c["sched"], c["obs"])
            ck.log("direct oracle:", fails or "holds")
            if fails:
                if in_orphan_signature(c["specs"], c["sched"]) and ck.match_finding(ORPHAN):
                    ck.known_finding(ORPHAN, "replayed case: %s" % fails[0][2])
                else:
                    ck.violation({"kind": "direct-oracle", "what": "replayed case: %s" % fails, "case": rp["case"]})
    else:
        ck.log("stress failures depend on the scheduler; re-running the stress round configuration of the replay file")
        binr = go_build_race(ck)
        rc, out = ck.run([binr, "stress", "3", str(rp.get("cfg", {}).get("duration_ms", 9000))], timeout=600,
                         env={"VERIF_SEED": str(rp.get("seed", ck.seed))})
        for l in out.splitlines():
            if l.startswith('{"kind":"stress"'):
                o = json.loads(l)
                ck.log("round", o["cfg"]["round"], "failures", o["n_failures"], [f["kind"] for f in o["failures"][:5]])
                for f in o["failures"][:1]:
                    if not (f["kind"] in LOST_KINDS and f.get("sig") == "ooo-row" and ck.match_finding(ORPHAN)):
                        ck.violation({"kind": "stress-direct-oracle", "what": f["kind"] + ": " + f["detail"][:2000]})
