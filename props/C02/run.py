"""C02 - reads equal a last-write-wins replay of acknowledged writes, in any layout. See DESIGN.md section 4 C02 and
props/C02/NOTES.md.

Decision procedure:
  1. audit + build coq/C02, re-check Props.v / Refuted.v.
  2. run harness cmd/c02 on the repository's working tree: corpus first, then generated histories; the harness applies
     the DIRECT ORACLE (Go last-write-wins map over acknowledged writes) to every read.
  3. replay every history on the Coq model (both variants of reopen: `current` = today's log replay order, `repaired`
     = acknowledgement order) with the plans / sequence numbers the real store chose, compare reads and file layout.
  4. verdict: oracle failure inside the signature of an open finding and explained by the `current` variant ->
     KNOWN-FINDING; oracle failure otherwise -> VIOLATION with replay; model/implementation disagreement without an
     oracle failure -> no-failing-input-found.
"""
import json
import os
import re
import vlib
from vlib import coq_z, coq_list

PID = "C02"
FINDING = "C02-reopen-walphase"
FINDING_MS = "C02-mergeself-mintime-order"
FINDING_FC = "C02-desc-filecursor-lastfile"
VARIANTS = [(False, 0), (True, 0), (False, 3), (True, 3)]  # (wal replay current, merge-self mode: 0 repaired, 3 = today's
# minimum-time order with the tie order among equal minimum times searched by the evaluator)


# ---------------------------------------------------------------------------------------------------------------
# history -> model ops

def coq_row(r):
    fs = sorted(r["f"], key=lambda x: x["f"])
    return "((%s, %s), %s)" % (coq_z(r["s"]), coq_z(r["t"]), coq_list(["(%s, %s)" % (coq_z(x["f"]), coq_z(x["v"])) for x in fs]))


def seqs(files, order):
    return [f["seq"] for f in (files or []) if f["order"] == order]


def groups_of(before, after):
    """files of `before` (list of seq) that disappeared are attached to the nearest preceding file: returns the groups
    (len > 1) as lists of seqs."""
    gone = set(before) - set(after)
    groups, cur = [], []
    for s in before:
        if s in gone and cur:
            cur.append(s)
        else:
            if len(cur) > 1:
                groups.append(cur)
            cur = [s]
    if len(cur) > 1:
        groups.append(cur)
    return groups, gone


def new_seq(before, after, default):
    n = [s for s in after if s not in before]
    return n[0] if n else default


def allooo(bo, ao, bu, au):
    """the flush produced an out-of-order file and no ordered one: either every row was late, or the sequencer was not
    available and FlushChunks sent everything to the out-of-order file; both readings give the same model state"""
    return "true" if (not [s for s in ao if s not in bo]) and [s for s in au if s not in bu] else "false"


def bounds_of(files):
    out = []
    for f in files or []:
        if f["order"]:
            out.append("(%s, %s)" % (coq_z(f["seq"]), coq_list(["(%s, %s)" % (coq_z(x["s"]), coq_z(x["max"])) for x in (f["series"] or [])])))
    return coq_list(out)


def model_ops(h):
    """returns list of (coq op text or None, op index) - None = the op did nothing the model has to replay"""
    out = []
    prev = []
    for i, o in enumerate(h["ops"]):
        k = o["k"]
        files = o["files"] or []
        allseq = [f["seq"] for f in prev] + [f["seq"] for f in files] + [0]
        d1, d2 = max(allseq) + 1000, max(allseq) + 1001
        bo, ao = seqs(prev, True), seqs(files, True)
        bu, au = seqs(prev, False), seqs(files, False)
        txt = None
        if k == "W":
            if not o.get("err"):
                txt = "Write %s" % coq_list([coq_row(r) for r in o["rows"]])
        elif k == "F":
            txt = "Flush %s %s %s" % (allooo(bo, ao, bu, au), coq_z(new_seq(bo, ao, d1)), coq_z(new_seq(bu, au, d2)))
        elif k == "FB":
            if not o.get("err"):
                txt = "BeginFlush"
        elif k == "FE":
            # only meaningful when the matching FB really paused a flush
            j = i - 1
            while j >= 0 and h["ops"][j]["k"] != "FB":
                j -= 1
            if j >= 0 and not h["ops"][j].get("err"):
                txt = "EndFlush %s %s %s" % (allooo(bo, ao, bu, au), coq_z(new_seq(bo, ao, d1)), coq_z(new_seq(bu, au, d2)))
        elif k in ("LC", "FC"):
            g, gone = groups_of(bo, ao)
            if gone:
                txt = "Compact %s" % coq_list([coq_list([coq_z(x) for x in grp]) for grp in g])
        elif k in ("MO", "MOB"):
            gone = [s for s in bu if s not in au]
            if gone:
                txt = "MergeOOO %s %s" % (coq_list([coq_z(x) for x in gone]), bounds_of(files))
        elif k == "MS":
            g, gone = groups_of(bu, au)
            if gone and len(g) == 1:
                txt = "MergeSelf %s %s" % (coq_list([coq_z(x) for x in g[0]]), coq_z(g[0][0]))
            elif gone:
                txt = "MergeSelf [] 0"  # more than one group in one op is not modelled: shows up as a mismatch
        elif k == "R":
            txt = "Reopen %s %s %s %s" % (coq_z(h["nwal"]), allooo(bo, ao, bu, au), coq_z(new_seq(bo, ao, d1)), coq_z(new_seq(bu, au, d2)))
        out.append((txt, i))
        prev = files
    return out


def coq_obs(o, nser):
    rows = []
    for s in range(nser):
        for r in (o["dump"] or {}).get(str(s)) or []:
            rows.append("((%s, %s), %s)" % (coq_z(s), coq_z(r["t"]), coq_list(["(%s, %s)" % (coq_z(x["f"]), coq_z(x["v"])) for x in (r["f"] or [])])))

    def fl(order):
        return coq_list(["(%s, %s)" % (coq_z(f["seq"]), coq_list(["(%s, %s, %s)" % (coq_z(x["s"]), coq_z(x["min"]), coq_z(x["max"])) for x in (f["series"] or [])]))
                         for f in (o["files"] or []) if f["order"] == order])
    reads = []
    for rd in o.get("reads") or []:
        rr = []
        for s in range(nser):
            for r in (rd["rows"] or {}).get(str(s)) or []:
                rr.append("((%s, %s), %s)" % (coq_z(s), coq_z(r["t"]), coq_list(["(%s, %s)" % (coq_z(x["f"]), coq_z(x["v"])) for x in (r["f"] or [])])))
        reads.append("(%s, %s, %s, %s, %s)" % (coq_z(rd["tmin"]), coq_z(rd["tmax"]), coq_list([coq_z(f) for f in rd["fields"]]),
                                             "true" if rd["asc"] else "false", coq_list(rr)))
    return "{| o_dump := %s; o_ord := %s; o_ooo := %s; o_reads := %s |}" % (coq_list(rows), fl(True), fl(False), coq_list(reads))


def case_coq(h):
    items = []
    idxmap = []
    for txt, i in model_ops(h):
        if txt is None:
            continue
        items.append("(%s, %s)" % (txt, coq_obs(h["ops"][i], h["nser"])))
        idxmap.append(i)
    return "(%d%%nat, %s)" % (h["nser"], coq_list(items)), idxmap


# ---------------------------------------------------------------------------------------------------------------
# signature of the open finding C02-reopen-walphase (shared root cause with C01-walphase):
# a close/reopen at which the write-ahead log holds two acknowledged batches that write the same (series,time,field)
# and that the partition round-robin replays in the opposite order.

def replay_order(n, recs):
    """recs: list of (counter, payload). One record from each non-exhausted partition in turn, from partition 0."""
    parts = [[] for _ in range(n)]
    for c, p in recs:
        parts[c % n].append((c, p))
    out = []
    while any(parts):
        for q in parts:
            if q:
                out.append(q.pop(0))
    return out


def lww_apply(state, rows):
    for r in rows:
        for x in r["f"]:
            state[(r["s"], r["t"], x["f"])] = x["v"]


def wal_signature(h):
    """index of the first Reopen op whose log replay order changes the last-write-wins result, else None"""
    c, wal = 0, []
    for i, o in enumerate(h["ops"]):
        k = o["k"]
        if k == "W" and not o.get("err"):
            wal.append((c, o["rows"]))
            c += 1
        elif k == "F" or (k == "FB" and not o.get("err")):
            wal = []
        elif k == "R":
            a, b = {}, {}
            for _, rows in wal:
                lww_apply(a, rows)
            for _, rows in replay_order(h["nwal"], wal):
                lww_apply(b, rows)
            if a != b:
                return i
            c, wal = 0, []
    return None


def ms_signature(h):
    """index of the first merge-self op (MS that really merged out-of-order files) in whose group a NEWER file (higher
    sequence) starts, for some series, no later than an OLDER file of the group (the heap gives equal minimum times no
    defined order) while their time ranges for
    that series overlap - the only situation in which ordering the members by minimum time instead of by sequence
    (chunk_iterators.go Less, used by MergeSelf.Merge) can let the older value win. Else None."""
    prev = []
    for i, o in enumerate(h["ops"]):
        files = o["files"] or []
        if o["k"] == "MS":
            g, gone = groups_of(seqs(prev, False), seqs(files, False))
            byseq = {f["seq"]: f for f in prev if not f["order"]}
            for grp in g:
                for ai in range(len(grp)):
                    for bi in range(ai + 1, len(grp)):
                        a, b = byseq[grp[ai]], byseq[grp[bi]]  # a older, b newer
                        ra = {x["s"]: x for x in (a["series"] or [])}
                        for xb in (b["series"] or []):
                            xa = ra.get(xb["s"])
                            if xa and xb["min"] <= xa["min"] and xb["max"] >= xa["min"]:
                                return i
        prev = files
    return None


def fc_signature(h, f):
    """signature of C02-desc-filecursor-lastfile for ONE failing read f of history h: f is a statement-level aggregate read
    on the file-cursor path with ORDER BY time DESC; when it ran the measurement had >= 2 ordered files; and for the
    failing series some ordered file OTHER than the newest one (the one a descending walk visits first and wrongly treats
    as the last) holds the series in a time range that, inside the query range, meets newer data of the series: a row
    still in the memtable / snapshot table, or the range of an out-of-order file."""
    if not f.get("xread") or (f.get("read") or {}).get("kind") != "agg" or not f["read"].get("desc"):
        return False
    s, opi = f.get("series"), f["op"]
    if s is None or s < 0 or opi >= len(h["ops"]):
        return False
    files = h["ops"][opi].get("files") or []
    ordered = [x for x in files if x["order"]]
    if len(ordered) < 2:
        return False
    # rows not yet in files when the read ran
    mem, snap = set(), set()
    for o in h["ops"][:opi + 1]:
        k = o["k"]
        if k == "W" and not o.get("err"):
            mem |= {(r["s"], r["t"]) for r in o["rows"]}
        elif k == "F":
            mem = set()
        elif k == "FB" and not o.get("err"):
            snap, mem = mem, set()
        elif k == "FE":
            snap = set()
        elif k == "R":
            mem, snap = set(), set()
    tmin, tmax = f["read"]["tmin"], f["read"]["tmax"]
    for of in ordered[:-1]:
        for x in of["series"] or []:
            if x["s"] != s:
                continue
            lo, hi = max(tmin, x["min"]), min(tmax, x["max"])
            if lo > hi:
                continue
            if any(ks == s and lo <= kt <= hi for (ks, kt) in mem | snap):
                return True
            for uf in files:
                if not uf["order"]:
                    for y in uf["series"] or []:
                        if y["s"] == s and max(lo, y["min"]) <= min(hi, y["max"]):
                            return True
    return False


# ---------------------------------------------------------------------------------------------------------------

def coq_tuples(body, arity):
    """all tuples of `arity` numbers in the printed list `body`; None when some printed tuple could not be read.
    Coq's printer breaks lines anywhere - also right after an opening parenthesis - and adds scope suffixes (3%nat)."""
    flat = re.sub(r"%\w+", "", re.sub(r"\s+", "", body))
    tups = re.findall(r"\((-?\d+(?:,-?\d+){%d})\)" % (arity - 1), flat)
    if len(tups) != flat.count("("):
        return None
    return [tuple(int(x) for x in t.split(",")) for t in tups]


def canary_case(t):
    """a copy of the case text `t` whose first recorded dump has one value changed (None when it has no such value)"""
    m = re.search(r"(o_dump := \[\(\(\d+%Z, \d+%Z\), \[\(\d+%Z, )(\d+)(%Z\))", t)
    return t[:m.start(2)] + str(int(m.group(2)) + 1) + t[m.end(2):] if m else None


FN_CODE = {"count": 0, "sum": 1, "min": 2, "max": 3, "first": 4, "last": 5}


def agg_case_coq(h):
    """history -> (Coq text of list (op * list aggobs), number of observations, [(op index, obs)] in model order).
    Observations of ops the model does not replay (failed write, reorganisation that changed nothing) are attached to the
    last replayed op: the layout is the same."""
    items, flat = [], []
    pending = []
    for txt, i in model_ops(h):
        obs = h["ops"][i].get("agg") or []
        if txt is None:
            if items:
                items[-1][1].extend((i, o) for o in obs)
            else:
                pending.extend((i, o) for o in obs)   # before the first replayed op: the layout is `init` - nothing to read; skipped
            continue
        items.append((txt, [(i, o) for o in obs]))
    out = []
    for txt, obs in items:
        ol = []
        for (i, o) in obs:
            ol.append("{| a_desc := %s; a_s := %s; a_tmin := %s; a_tmax := %s; a_f := %s; a_fn := %s; a_has := %s; a_v := %s; a_t := %s |}" % (
                "true" if o.get("desc") else "false", coq_z(o["s"]), coq_z(o["tmin"]), coq_z(o["tmax"]), coq_z(o["f"]),
                coq_z(FN_CODE[o["fn"]]), "true" if o["has"] else "false", coq_z(o["v"]), coq_z(o.get("t", 0))))
            flat.append((i, o))
        out.append("(%s, %s)" % (txt, coq_list(ol)))
    return coq_list(out), len(flat), items


def eval_agg(ck, hs, ok):
    """replays the aggregate observations (file-cursor path) on the Coq model of the walk. Returns {case index: [(op
    index, observation)]} of the observations the model does not reproduce, or None when the evaluation itself failed
    (recorded in ck.broken). Fails closed: the number of observations evaluated must equal the number sent, every printed
    tuple must be readable, and a canary history with one corrupted value must be reported."""
    if not ok:
        return None
    shard = 25
    files, meta = [], []
    hdr = ("From Coq Require Import ZArith List Bool. From OG Require Import C02.Model C02.FileCursor C02.CorrAgg.\n"
           "Import ListNotations. Open Scope Z_scope.\n")
    canary = None
    for a in range(0, len(hs), shard):
        texts, counts, itemss = [], 0, []
        for h in hs[a:a + shard]:
            t, n, items = agg_case_coq(h)
            texts.append(t)
            counts += n
            itemss.append(items)
            if canary is None and n > 0 and not (h.get("oracle") or h.get("xoracle") or h.get("crash")):
                m = re.search(r"(a_has := true; a_v := \(?)(-?\d+)", t)   # an observation whose value is compared
                if m:
                    canary = t[:m.start(2)] + str(int(m.group(2)) + 1) + t[m.end(2):]
        files.append(("c02agg%d" % (a // shard), hdr + "Definition cases : list (list (op * list aggobs)) := [\n%s\n].\n"
                      "Definition A := Eval vm_compute in agg_mismatches cases.\nPrint A.\n"
                      "Definition T := Eval vm_compute in agg_total cases.\nPrint T.\n" % ";\n".join(texts)))
        meta.append((a, counts, itemss))
    NCAN = 12
    if canary is not None:
        files.append(("c02aggcanary", hdr + "Definition cases : list (list (op * list aggobs)) := [\n%s\n].\n"
                      "Definition A := Eval vm_compute in agg_mismatches cases.\nPrint A.\n" % ";\n".join([canary] * NCAN)))
    outs = ck.coq_eval_many(files, timeout=900)
    if canary is not None:
        rc, o = outs.pop()
        m = re.search(r"A\s*=\s*(.*?)\s*:\s*list", o, re.S)
        tups = coq_tuples(m.group(1), 3) if rc == 0 and m else None
        if tups is None or {t[0] for t in tups} != set(range(NCAN)):
            ck.broken.append("C02 aggregate canary: a corrupted aggregate observation was not reported by the file-cursor model "
                             "evaluation (read back: %s)" % (o[-300:] if tups is None else sorted(tups)[:NCAN]))
            return None
    elif sum(c for _, c, _ in meta) > 0 and not getattr(ck, "replay", None):
        ck.broken.append("C02 aggregate canary: no history without an oracle failure to build the corrupted observation from")
        return None
    bad = {}
    total = 0
    for (a, counts, itemss), (rc, o) in zip(meta, outs):
        m = re.search(r"A\s*=\s*(.*?)\s*:\s*list", o, re.S)
        mt = re.search(r"T\s*=\s*(\d+)(?:%nat)?\s*:\s*nat", o)
        tups = coq_tuples(m.group(1), 3) if rc == 0 and m else None
        if tups is None or not mt or int(mt.group(1)) != counts:
            ck.broken.append("C02 file-cursor model evaluation failed on shard starting at case %d (sent %d observations): %s" % (a, counts, o[-500:]))
            return None
        total += counts
        for (k, i, j) in tups:
            if k >= len(itemss) or i >= len(itemss[k]) or j >= len(itemss[k][i][1]):
                ck.broken.append("C02 file-cursor model evaluation: index out of range in %s" % ((k, i, j),))
                return None
            bad.setdefault(a + k, []).append(itemss[k][i][1][j])
    ck.cov["aggregate_observations_replayed_on_file_cursor_model"] = total
    return bad


def canary_reads_case(t):
    """a copy of the case text `t` in which one value of a recorded SHAPED read is changed (None when it has none)"""
    m = re.search(r"(o_reads := \[\([^|]*?\(\(\d+%Z, \d+%Z\), \[\(\d+%Z, )(\d+)(%Z\))", t)
    return t[:m.start(2)] + str(int(m.group(2)) + 1) + t[m.end(2):] if m else None


def coq_rows(rows, s):
    return coq_list(["((%s, %s), %s)" % (coq_z(s), coq_z(r["t"]), coq_list(["(%s, %s)" % (coq_z(x["f"]), coq_z(x["v"])) for x in (r["f"] or [])]))
                     for r in rows or []])


def tag_obs_coq(h, r):
    return "(%s, %s, %s, %s, %s)" % (coq_z(r["tmin"]), coq_z(r["tmax"]), coq_list([coq_z(f) for f in r["fields"]]),
                                     "true" if r["asc"] else "false",
                                     coq_list(["(%s, %s)" % (coq_z(a[0]), coq_z(a[1])) for a in (r.get("arr") or [])]))


def lim_obs_coq(h, r):
    per = coq_list([coq_rows((r["rows"] or {}).get(str(s)), s) for s in range(h["nser"])])
    return "(%s, %s, %s, %s, %s, %s)" % (coq_z(r["tmin"]), coq_z(r["tmax"]), coq_list([coq_z(f) for f in r["fields"]]),
                                         "true" if r["asc"] else "false", coq_z(r["need"]), per)


SIDE = {
    # name: (Coq module, observation type, mismatch fn, total fn, observations of an op, text of one observation,
    #        regex whose group 2 is a number of an observation that the model compares, evidence key, description)
    "tag": ("C02.TagSet", "aobs", "tag_mismatches", "tag_total",
            lambda o: [r for r in (o.get("reads") or []) if r.get("kind") == "flat1"], tag_obs_coq,
            r"(, (?:true|false), \[\(\d+%Z, )(\d+)(%Z\))", "flat_single_cursor_reads_replayed_on_tagset_model",
            "tag-set merge (arrival order of a flat read served by one group cursor)"),
    "lim": ("C02.Limit", "lobs", "lim_mismatches", "lim_total",
            lambda o: o.get("lim") or [], lim_obs_coq,
            r"(, (?:true|false), \d+%Z, \[[^|]*?\(\(\d+%Z, \d+%Z\), \[\(\d+%Z, )(\d+)(%Z\))", "limit_reads_replayed_on_limit_model",
            "LIMIT/OFFSET push-down (per-series prefixes, lower bound on the number of rows)"),
}


def side_case_coq(h, which):
    """history -> (Coq text (nser, list (op * list obs)), number of observations, items)"""
    obs_of, obs_coq = SIDE[which][4], SIDE[which][5]
    items = []
    for txt, i in model_ops(h):
        obs = [(i, r) for r in obs_of(h["ops"][i])]
        if txt is None:
            if items:
                items[-1][1].extend(obs)
            continue
        items.append((txt, obs))
    out, n = [], 0
    for txt, obs in items:
        out.append("(%s, %s)" % (txt, coq_list([obs_coq(h, r) for (_, r) in obs])))
        n += len(obs)
    return "(%d%%nat, %s)" % (h["nser"], coq_list(out)), n, items


def eval_side(ck, hs, ok, which):
    """replays the observations of kind `which` on their Coq model (repaired variant). Returns {case index: [(op index,
    observation)]} of the observations the model does not accept, None when the evaluation itself failed. Fails closed:
    the number of observations evaluated must equal the number sent, every printed tuple must be readable, and a canary
    history with one corrupted value must be reported."""
    if not ok:
        return None
    mod, typ, mism, tot, _, _, canre, covkey, what = SIDE[which]
    shard = 25
    files, meta = [], []
    hdr = ("From Coq Require Import ZArith List Bool. From OG Require Import C02.Model C02.Corr %s.\n"
           "Import ListNotations. Open Scope Z_scope.\n" % mod)
    canary = None
    for a in range(0, len(hs), shard):
        texts, counts, itemss = [], 0, []
        for h in hs[a:a + shard]:
            t, n, items = side_case_coq(h, which)
            texts.append(t)
            counts += n
            itemss.append(items)
            if canary is None and n > 0 and not (h.get("oracle") or h.get("xoracle") or h.get("crash")):
                m = re.search(canre, t)
                if m:
                    canary = t[:m.start(2)] + str(int(m.group(2)) + 1) + t[m.end(2):]
        files.append(("c02%s%d" % (which, a // shard), hdr + "Definition cases : list (nat * list (op * list %s)) := [\n%s\n].\n"
                      "Definition A := Eval vm_compute in %s cases.\nPrint A.\n"
                      "Definition T := Eval vm_compute in %s cases.\nPrint T.\n" % (typ, ";\n".join(texts), mism, tot)))
        meta.append((a, counts, itemss))
    NCAN = 12
    total_sent = sum(c for _, c, _ in meta)
    if canary is not None:
        files.append(("c02%scanary" % which, hdr + "Definition cases : list (nat * list (op * list %s)) := [\n%s\n].\n"
                      "Definition A := Eval vm_compute in %s cases.\nPrint A.\n" % (typ, ";\n".join([canary] * NCAN), mism)))
    outs = ck.coq_eval_many(files, timeout=900)
    if canary is not None:
        rc, o = outs.pop()
        m = re.search(r"A\s*=\s*(.*?)\s*:\s*list", o, re.S)
        tups = coq_tuples(m.group(1), 3) if rc == 0 and m else None
        if tups is None or {t[0] for t in tups} != set(range(NCAN)):
            ck.broken.append("C02 %s canary: a corrupted observation was not reported by the model evaluation (read back: %s)" % (
                which, o[-300:] if tups is None else sorted(tups)[:NCAN]))
            return None
    elif total_sent > 0 and not getattr(ck, "replay", None):
        ck.broken.append("C02 %s canary: no usable observation in a history without an oracle failure" % which)
        return None
    bad, total = {}, 0
    for (a, counts, itemss), (rc, o) in zip(meta, outs):
        m = re.search(r"A\s*=\s*(.*?)\s*:\s*list", o, re.S)
        mt = re.search(r"T\s*=\s*(\d+)(?:%nat)?\s*:\s*nat", o)
        tups = coq_tuples(m.group(1), 3) if rc == 0 and m else None
        if tups is None or not mt or int(mt.group(1)) != counts:
            ck.broken.append("C02 %s model evaluation failed on shard starting at case %d (sent %d observations): %s" % (which, a, counts, o[-500:]))
            return None
        total += counts
        for (k, i, j) in tups:
            if k >= len(itemss) or i >= len(itemss[k]) or j >= len(itemss[k][i][1]):
                ck.broken.append("C02 %s model evaluation: index out of range in %s" % (which, (k, i, j)))
                return None
            bad.setdefault(a + k, []).append(itemss[k][i][1][j])
    ck.cov[covkey] = total
    if total == 0 and not getattr(ck, "replay", None):
        ck.broken.append("C02: the harness recorded no observation for the model of the %s" % what)
    return bad


def eval_fn(ck, binp, ok):
    """function-level tie (harness fn.go): ColumnSortHelper.Sort / MergeRecord / MergeRecordDescend called directly; direct
    oracle in the harness (Go LWW map), every result also compared with sort_dedup / over of Model.v. Fails closed."""
    n = 600 if ck.tier == "quick" else 6000
    rc, out = ck.run([binp, "fn", str(n)], timeout=1200)
    cs = [json.loads(l) for l in out.splitlines() if l.startswith('{"fn"')]
    if rc != 0 or len(cs) != n:
        ck.broken.append("harness c02 fn failed rc=%d cases=%d/%d: %s" % (rc, len(cs), n, out[-400:]))
        return
    nviol = 0
    for c in cs:
        if c.get("bad") or c.get("err"):
            nviol += 1
            if nviol <= 2:
                ck.violation({"kind": "direct-oracle-function", "what": "%s: %s" % (c["fn"], c.get("bad") or c.get("err")), "case": c})
    ck.cov["function_level_cases"] = {"cases": len(cs), "oracle_failures": nviol}
    if not ok:
        return
    code = {"sort": 0, "merge": 1, "mergd": 2}

    def case_txt(c):
        return "(%s, %s, %s, %s)" % (coq_z(code[c["fn"]]), coq_rows(c["a"], 0), coq_rows(c.get("b"), 0), coq_rows(c.get("out"), 0))
    hdr = ("From Coq Require Import ZArith List Bool. From OG Require Import C02.Model C02.Corr C02.CorrFn.\n"
           "Import ListNotations. Open Scope Z_scope.\n")
    good = [c for c in cs if not (c.get("bad") or c.get("err"))]
    shard = 150
    files = []
    for a in range(0, len(good), shard):
        files.append(("c02fn%d" % (a // shard), hdr + "Definition cases : list fncase := [\n%s\n].\n"
                      "Definition A := Eval vm_compute in fn_bad cases.\nPrint A.\nDefinition T := Eval vm_compute in fn_total cases.\nPrint T.\n"
                      % ";\n".join(case_txt(c) for c in good[a:a + shard])))
    # canary: one case of every function with a changed output value must be reported
    can = []
    for fn in ("sort", "merge", "mergd"):
        for c in good:
            if c["fn"] == fn and c.get("out") and c["out"][0]["f"]:
                cc = json.loads(json.dumps(c))
                cc["out"][0]["f"][0]["v"] += 1
                can.append(case_txt(cc))
                break
    if len(can) == 3:
        files.append(("c02fncanary", hdr + "Definition cases : list fncase := [\n%s\n].\nDefinition A := Eval vm_compute in fn_bad cases.\nPrint A.\n"
                      % ";\n".join(can * 4)))
    else:
        ck.broken.append("C02 function canary: no usable case of every function")
        return
    outs = ck.coq_eval_many(files, timeout=900)
    rc, o = outs.pop()
    m = re.search(r"A\s*=\s*(.*?)\s*:\s*list", o, re.S)
    tups = coq_tuples(m.group(1), 3) if rc == 0 and m else None
    if tups is None or {t[0] for t in tups} != set(range(12)):
        ck.broken.append("C02 function canary: corrupted results were not reported by the model evaluation (read back: %s)" % (
            o[-300:] if tups is None else sorted(tups)))
        return
    total = 0
    for i, (rc, o) in enumerate(outs):
        m = re.search(r"A\s*=\s*(.*?)\s*:\s*list", o, re.S)
        mt = re.search(r"T\s*=\s*(\d+)(?:%nat)?\s*:\s*nat", o)
        tups = coq_tuples(m.group(1), 3) if rc == 0 and m else None
        sent = len(good[i * shard:(i + 1) * shard])
        if tups is None or not mt or int(mt.group(1)) != sent:
            ck.broken.append("C02 function-level model evaluation failed on shard %d: %s" % (i, o[-400:]))
            return
        total += sent
        for (k, fn, _) in tups:
            c = good[i * shard + k]
            ck.broken.append("correspondence C02 function %s: lib/record result differs from the model (%s) although it equals the "
                             "last-write-wins replay" % (c["fn"], "sort_dedup" if c["fn"] == "sort" else "over"))
            if not hasattr(ck, "nofail_detail"):
                ck.nofail_detail = {"kind": "correspondence-function", "case": c}
            break
    ck.cov["function_level_cases"]["replayed_on_model"] = total


def eval_model(ck, hs, ok):
    """returns {variant: {case index: (op index, code)}} ; variant in VARIANTS"""
    res = {v: {} for v in VARIANTS}
    if not ok:
        return None
    shard = 20
    files, maps = [], []
    canary = None
    canary_r = None
    nreads = sum(len(o.get("reads") or []) for h in hs for o in h["ops"])
    ck.cov["shaped_reads_replayed_on_model"] = nreads
    if nreads == 0 and not getattr(ck, "replay", None):
        ck.broken.append("C02: the harness recorded no shaped read (sub-range / field subset / descending / tag-set reads) to replay on the model")
    for a in range(0, len(hs), shard):
        chunk = hs[a:a + shard]
        cases, idxmaps = [], []
        for h in chunk:
            t, m = case_coq(h)
            cases.append(t)
            idxmaps.append(m)
            if canary is None and not (h.get("oracle") or h.get("xoracle") or h.get("crash")):
                canary = canary_case(t)
            if canary_r is None and not (h.get("oracle") or h.get("xoracle") or h.get("crash")):
                canary_r = canary_reads_case(t)
        txt = ("From Coq Require Import ZArith List Bool. From OG Require Import C02.Model C02.Corr.\n"
               "Import ListNotations. Open Scope Z_scope.\n"
               "Definition cases : list (nat * list (op * obs)) := [\n%s\n].\n"
               + "".join("Definition M%d%d := Eval vm_compute in mismatches %s %d cases.\nPrint M%d%d.\n" % (int(w), m, "true" if w else "false", m, int(w), m)
                         for (w, m) in VARIANTS)) % ";\n".join(cases)
        files.append(("c02cases%d" % (a // shard), txt))
        maps.append((a, idxmaps))
    # canary: 20 copies of a history whose recorded dump has one value changed MUST all be reported (20: the printed list
    # is then wrapped over several lines, also right after an opening parenthesis, as real results are)
    NCAN = 20
    if canary is not None:
        files.append(("c02canary", "From Coq Require Import ZArith List Bool. From OG Require Import C02.Model C02.Corr.\n"
                      "Import ListNotations. Open Scope Z_scope.\n"
                      "Definition cases : list (nat * list (op * obs)) := [\n%s\n].\n"
                      "Definition M00 := Eval vm_compute in mismatches false 0 cases.\nPrint M00.\n" % ";\n".join([canary] * NCAN)))
    if canary_r is not None:
        files.append(("c02canaryr", "From Coq Require Import ZArith List Bool. From OG Require Import C02.Model C02.Corr.\n"
                      "Import ListNotations. Open Scope Z_scope.\n"
                      "Definition cases : list (nat * list (op * obs)) := [\n%s\n].\n"
                      "Definition M00 := Eval vm_compute in mismatches false 0 cases.\nPrint M00.\n" % ";\n".join([canary_r] * NCAN)))
    outs = ck.coq_eval_many(files, timeout=600)
    if canary_r is not None:
        rc, o = outs.pop()
        m = re.search(r"M00\s*=\s*(.*?)\s*:\s*list", o, re.S)
        tups = coq_tuples(m.group(1), 3) if rc == 0 and m else None
        if tups is None or {t[0] for t in tups} != set(range(NCAN)) or {t[2] for t in tups} != {6}:
            ck.broken.append("C02 canary: a corrupted shaped read was not reported with code 6 by the model evaluation (read back: %s)" % (
                o[-300:] if tups is None else sorted(tups)[:NCAN]))
    elif nreads > 0 and not getattr(ck, "replay", None):
        ck.broken.append("C02 canary: no history without an oracle failure to build the corrupted shaped read from")
    if canary is not None:
        rc, o = outs.pop()
        m = re.search(r"M00\s*=\s*(.*?)\s*:\s*list", o, re.S)
        tups = coq_tuples(m.group(1), 3) if rc == 0 and m else None
        if tups is None or {t[0] for t in tups} != set(range(NCAN)):
            ck.broken.append("C02 canary: a corrupted case was not reported by the model evaluation (%d copies of a history with one "
                             "changed dump value; read back: %s)" % (NCAN, o[-300:] if tups is None else sorted(tups)[:NCAN]))
    elif not getattr(ck, "replay", None):
        ck.broken.append("C02 canary: no history without an oracle failure to build the corrupted case from")
    for (a, idxmaps), (rc, o) in zip(maps, outs):
        for name, key in [("M%d%d" % (int(w), m), (w, m)) for (w, m) in VARIANTS]:
            m = re.search(name + r"\s*=\s*(.*?)\s*:\s*list", o, re.S)
            tups = coq_tuples(m.group(1), 3) if rc == 0 and m else None
            if tups is None:
                ck.broken.append("C02 model evaluation failed on shard starting at case %d: %s" % (a, o[-600:]))
                return None
            for k, i, code in tups:
                res[key][a + k] = (idxmaps[k][i] if i < len(idxmaps[k]) else -1, code)
    return res


CODES = {6: "a shaped read (sub-range / field subset / descending / multi-series tag set) differs from the model's read_layout",
         1: "rows read differ", 2: "ordered file layout differs", 3: "out-of-order file layout differs",
         4: "plan / sequence numbers outside what the model allows", 5: "layout invariant broken in the model"}


def main(ck):
    ck.assumptions += [
        "the shard is driven in-process through engine/verif_export_c02.go (construction sequence of the package's own "
        "tests); every read goes through shard.CreateCursor and the production cursor chain",
        "series created by a write are made searchable at once (IndexBuilder.Flush after each write): index visibility "
        "latency (<= 1 s on a server) is not part of C02",
        "compaction thresholds are lowered (LeveLMinGroupFiles=2, LevelMergeFileNum=2) so that tiny histories reach "
        "compaction and merge-self; they decide when a plan is made, not what a plan may contain",
        "typed values are encoded injectively as integers (float = k/4); integers stay far below 2^53 (C06 covers larger)",
        "values are opaque to the model; NaN/Inf/-0.0 are C07's subject",
    ]
    ck.cov["trusted_base"] = ["Coq 8.16.1 kernel + vm_compute (case evaluation, Examples, refutation witness)",
                              "Go harness cmd/c02 + internal/tsdrv, python driver props/C02/run.py",
                              "engine/verif_export_c02.go (thin wrappers)"]
    ck.coq_audit(["C02"])
    targets = ["C02/Corr.vo"]
    have_proofs = os.path.exists(os.path.join(ck.verif, "coq", "C02", "Props.v"))
    if have_proofs:
        targets += ["C02/Proofs.vo", "C02/Refine.vo", "C02/FileCursor.vo", "C02/CorrAgg.vo", "C02/LayoutOk.vo", "C02/TagSet.vo", "C02/Limit.vo", "C02/CorrFn.vo"]
    ok = ck.coq_build(targets)
    if ok and have_proofs:
        props = ["C02/Props.v"]
        if os.path.exists(os.path.join(ck.verif, "coq", "C02", "Refuted.v")):
            props.append("C02/Refuted.v")
        ck.coq_props(props)
    binp = ck.go_build("./cmd/c02", "c02")
    if not binp:
        return
    corpus = os.path.join(ck.verif, "corpus", PID)
    if getattr(ck, "replay", None):
        rp = json.load(open(ck.replay))
        hist = rp.get("history", rp)
        tmp = os.path.join(ck.work, "replay.json")
        json.dump(hist, open(tmp, "w"))
        rc, out = ck.run([binp, "0", tmp], timeout=600)
    else:
        n = 220 if ck.tier == "quick" else 4000
        rc, out = ck.run([binp, str(n)], timeout=3000, env={"VERIF_CORPUS": corpus})
    hs = [json.loads(l) for l in out.splitlines() if l.startswith('{"case"')]
    if getattr(ck, "replay", None):
        expected = 1
    else:
        expected = n + (len([f for f in os.listdir(corpus) if f.endswith(".case")]) if os.path.isdir(corpus) else 0)
    if rc != 0 or len(hs) != expected:
        ck.broken.append("harness c02 failed rc=%d histories=%d/%d: %s" % (rc, len(hs), expected, out[-600:]))
        if not hs:
            return
    crashed = [h for h in hs if h.get("crash")]
    for h in crashed[:3]:
        if h["crash"].startswith("timeout"):
            # a history that never finishes is a concrete failing input: some read or reorganisation did not return
            ck.violation({"kind": "hang", "what": h["crash"], "history": {k: v for k, v in h.items() if k in ("case", "nwal", "nser", "auto", "in")}})
        else:
            ck.broken.append("harness c02: history %d aborted: %s" % (h["case"], h["crash"][:300]))

    ck.log("harness done: %d histories" % len(hs))
    res = eval_model(ck, hs, ok)
    ck.log("model replay done")
    aggbad = eval_agg(ck, hs, ok)
    sidebad = {w: eval_side(ck, hs, ok, w) for w in ("tag", "lim")}
    ck.log("file-cursor and tag-set replays done")
    if not getattr(ck, "replay", None):
        eval_fn(ck, binp, ok)
        ck.log("function-level tie done")

    # ---- verdicts
    # entries of the committed per-property fragment that the merged known_findings.json does not hold yet
    frag = os.path.join(ck.verif, "props", PID, "findings.json")
    if os.path.exists(frag):
        have = {f["id"]: f for f in ck.findings}
        for f in json.load(open(frag))["findings"]:
            if f["property"] != PID:
                continue
            if f["id"] not in have:
                ck.findings.append(f)
            elif f.get("status") == "fixed":
                have[f["id"]]["status"] = "fixed"  # the fragment is ahead of the merged file; fixed suppresses nothing
    finding = ck.match_finding(FINDING)
    finding_ms = ck.match_finding(FINDING_MS)
    # self-test knob (can only make the check stricter): treat the named open findings as already fixed
    treat_fixed = [x for x in os.environ.get("VERIF_C02_TREAT_FIXED", "").split(",") if x]
    if FINDING in treat_fixed:
        finding = None
    if FINDING_MS in treat_fixed:
        finding_ms = None
    finding_fc = ck.match_finding(FINDING_FC)
    if FINDING_FC in treat_fixed:
        finding_fc = None
    fc_cases, fc_eligible = 0, 0
    viol = 0
    sig_cases, ms_cases = 0, 0
    reproduced = set()
    for idx, h in enumerate(hs):
        sig = wal_signature(h)
        msig = ms_signature(h)
        sig_cases += sig is not None
        ms_cases += msig is not None
        fails = (h.get("oracle") or []) + [dict(f, xread=True) for f in (h.get("xoracle") or [])]
        if not fails:
            continue
        fails.sort(key=lambda f: f["op"])
        # failing reads inside the signature of the descending file-cursor finding are set aside first (each read is
        # decided on its own); whatever remains goes through the variant-based classification below
        if finding_fc is not None:
            rest = [f for f in fails if not fc_signature(h, f)]
            if len(rest) < len(fails):
                fc_cases += 1
                reproduced.add(FINDING_FC)
                ck.known_finding(FINDING_FC, "an aggregate with ORDER BY time DESC on the file-cursor path sees both versions of a point "
                                 "that was overwritten after its older version reached an ordered file other than the newest")
                ck.cov.setdefault("known_finding_cases", []).append({"history": h["case"], "desc_filecursor_reads": len(fails) - len(rest)})
            fails = rest
            if not fails:
                continue
        first = min(f["op"] for f in fails)
        explained = None
        if res is not None:
            for (wc, mc) in VARIANTS[1:]:
                if idx in res[(wc, mc)]:
                    continue  # this variant does not reproduce the implementation's reads / layout
                if (wc and (sig is None or finding is None)) or (mc and (msig is None or finding_ms is None)):
                    continue  # outside the signature, or the finding is not open
                start = min([x for x, on in ((sig, wc), (msig, mc)) if on])
                if first >= start:
                    explained = (wc, mc)
                    break
        if explained:
            if explained[0]:
                reproduced.add(FINDING)
                ck.known_finding(FINDING, "after a clean close/reopen a read returns an older acknowledged value than the last write "
                                 "(write-ahead log replayed out of acknowledgement order)")
            if explained[1]:
                reproduced.add(FINDING_MS)
                ck.known_finding(FINDING_MS, "after merge-self of out-of-order files a read returns an older acknowledged value "
                                 "(members folded in minimum-time order instead of sequence order)")
            ck.cov.setdefault("known_finding_cases", []).append({"history": h["case"], "wal_replay": explained[0], "merge_self": explained[1],
                                                                  "reopen_op": sig, "merge_self_op": msig, "wal_partitions": h["nwal"]})
        else:
            viol += 1
            if viol <= 3:
                slim = dict(h)
                slim["ops"] = [{k: v for k, v in o.items() if k in ("k", "rows", "level", "bg")} for o in h["ops"]]
                slim.pop("oracle", None)
                slim.pop("xoracle", None)
                ck.violation({"kind": "direct-oracle", "what": fails[0]["what"], "first_failure": fails[0], "failures": len(fails),
                              "history": slim, "wal_signature_op": sig, "merge_self_signature_op": msig,
                              "model": {"%s/%s" % v: (res[v].get(idx) if res else None) for v in VARIANTS}})
    if res is not None:
        for idx, h in enumerate(hs):
            if h.get("oracle") or h.get("xoracle") or h.get("crash"):
                continue
            mm = res[(False, 0)].get(idx)
            if mm is not None:
                opi, code = mm
                ck.broken.append("correspondence C02 model/implementation: history %d op %d (%s): %s" % (
                    h["case"], opi, h["ops"][opi]["k"] if 0 <= opi < len(h["ops"]) else "?", CODES.get(code, code)))
                if not hasattr(ck, "nofail_detail"):
                    slim = dict(h)
                    slim["ops"] = [{k: v for k, v in o.items() if k in ("k", "rows", "level", "files", "bg")} for o in h["ops"]]
                    ck.nofail_detail = {"kind": "correspondence", "code": CODES.get(code, code), "op": opi, "history": slim,
                                        "explanation": "model and implementation differ although the direct oracle (Go LWW map) "
                                                       "found every read correct"}
                if len(ck.broken) > 6:
                    break
    fc_eligible = sum(1 for h in hs if (h.get("xkinds") or {}).get("agg-desc") and any(
        len([x for x in (o.get("files") or []) if x["order"]]) >= 2 for o in h["ops"]))
    ck.cov["desc_filecursor_finding_histories"] = fc_cases
    if aggbad:
        for idx in sorted(aggbad):
            h = hs[idx]
            if h.get("oracle") or h.get("xoracle") or h.get("crash"):
                continue
            opi, o = aggbad[idx][0]
            ck.broken.append("correspondence C02 file-cursor model/implementation: history %d op %d: %s(%s) of series %d over [%d,%d]%s = %s" % (
                h["case"], opi, o["fn"], o["f"], o["s"], o["tmin"], o["tmax"], " desc" if o.get("desc") else "",
                (o["v"], o.get("t")) if o["has"] else "no result"))
            if not hasattr(ck, "nofail_detail"):
                slim = dict(h)
                slim["ops"] = [{k: v for k, v in x.items() if k in ("k", "rows", "level", "files", "bg")} for x in h["ops"]]
                ck.nofail_detail = {"kind": "correspondence-file-cursor", "op": opi, "observation": o, "history": slim,
                                    "explanation": "the model of the file-cursor walk does not reproduce an aggregate the real store "
                                                   "returned although the direct oracle found it correct"}
            if len(ck.broken) > 6:
                break
    for w, badmap in sidebad.items():
        for idx in sorted(badmap or {}):
            h = hs[idx]
            if h.get("oracle") or h.get("xoracle") or h.get("crash"):
                continue
            opi, r = badmap[idx][0]
            slimr = {k: v for k, v in r.items() if k != "rows"} if w == "tag" else r
            ck.broken.append("correspondence C02 %s model/implementation: history %d op %d: %s" % (SIDE[w][8], h["case"], opi, json.dumps(slimr)[:400]))
            if not hasattr(ck, "nofail_detail"):
                slim = dict(h)
                slim["ops"] = [{k: v for k, v in x.items() if k in ("k", "rows", "level", "files", "bg")} for x in h["ops"]]
                ck.nofail_detail = {"kind": "correspondence-" + w, "op": opi, "observation": r, "history": slim,
                                    "explanation": "the model of the %s does not accept what the real store delivered although the "
                                                   "direct oracle found every row correct" % SIDE[w][8]}
            if len(ck.broken) > 6:
                break
    for fid, fobj, n in ((FINDING, finding, sig_cases), (FINDING_MS, finding_ms, ms_cases), (FINDING_FC, finding_fc, fc_eligible)):
        if fobj is not None and fid not in reproduced and n > 0:
            ck.notes.append("open finding %s did not reproduce on %d eligible histories: stale (tree looks repaired)" % (fid, n))

    # ---- coverage
    hist, flags = {}, {}
    nontriv = set()
    queries = 0
    xkinds = {}
    for h in hs:
        queries += h.get("queries", 0) + h.get("xreads", 0)
        for k, v in (h.get("xkinds") or {}).items():
            xkinds[k] = xkinds.get(k, 0) + v
        for o in h["ops"]:
            kk = o["k"] + ("(background tick)" if o.get("bg") and o["k"] != "BG" else "")
            hist[kk] = hist.get(kk, 0) + 1
        for k, v in (h.get("flags") or {}).items():
            if v:
                flags[k] = flags.get(k, 0) + 1
        fl = h.get("flags") or {}
        if (fl.get("cross_overwrite") or fl.get("late")) and (fl.get("ooo_file") or fl.get("compacted") or fl.get("merged") or fl.get("snapshot") or fl.get("reopened")):
            nontriv.add(json.dumps([(o["k"], o.get("rows")) for o in h["ops"]], sort_keys=True))
    ck.cov["evaluations"] = queries
    ck.cov["histories"] = len(hs)
    ck.cov["distinct_nontrivial"] = len(nontriv)
    ck.cov["rule"] = ("a history is non-trivial when a (series,time,field) was rewritten after its older value had moved to another "
                      "container, or a row older than already flushed data of its series was written, AND the layout really held "
                      "out-of-order files / was compacted / merged / read with a live snapshot table / reopened; distinct = different "
                      "op lists. evaluations = cursor reads checked against the Go LWW oracle")
    ck.cov["op_histogram"] = hist
    ck.cov["statement_level_reads_by_kind"] = xkinds
    ck.cov["histories_with_background_tick_after_every_flush"] = sum(1 for h in hs if h.get("auto"))
    ck.cov["read_paths"] = {
        "plain rows (shard.CreateCursor drained directly)": "groupCursor -> tagSetCursor.NextWithoutPreAgg (heap merge of the series of a tag "
            "set) -> seriesCursor (memtable over files) -> tsmMergeCursor (out-of-order over ordered) -> LocationCursor; asc and desc, "
            "GROUP BY host and flat with aux tag, 1-4 group cursors",
        "zone": "same chain below a ChunkReader, tag sets holding several series (GROUP BY zone, host as aux tag)",
        "limit": "LIMIT/OFFSET push-down: lazily initialised tag-set/series cursors, groupCursor.limitBound, itrsInitWithLimit (SELECT *)",
        "agg": "FILE-CURSOR path: AggTagSetCursor -> fileLoopCursor -> fileCursor.readData with the exact-statistics hint "
               "(initMergeIters folds memtable and out-of-order files newest first, getMemEndIndex cuts them at each ordered chunk's range)"}
    ck.cov["history_flags"] = flags
    ck.cov["wal_signature_histories"] = sig_cases
    ck.cov["merge_self_signature_histories"] = ms_cases
    best = [min((len(res[v]) for v in VARIANTS)) if res else None]
    ck.cov["traces_validated_against_impl"] = (len(hs) - len(set.intersection(*[set(res[v]) for v in VARIANTS]))) if res else 0
    ck.cov["model_mismatch_by_variant(wal_current/mergeself_current)"] = {"%s/%s" % v: len(res[v]) for v in VARIANTS} if res else None
    ck.cov["samples"] = [[(o["k"], o.get("rows")) for o in h["ops"]][:6] for h in hs[:2]]
