"""C09 - aggregates served from stored statistics equal aggregates over the rows. See DESIGN.md section 4 C09 and
props/C09/NOTES.md.

  1. audit + build coq/C09, re-check Props.v / Refuted.v.
  2. harness cmd/c09 on the repository's working tree: C02-style histories on a real shard.
     a. paired queries `select f(x)[, g(y)..]` (with / without exact-statistics hint, field filter, time bucket, tag
        filter; GROUP BY host / zone / nothing; ascending and descending; range ends on and around file, segment and
        bucket boundaries) vs the plain `select x`, both through the store-side reader the planner builds. DIRECT ORACLE:
        combined partial results == f over the rows of the plain select whenever the statement's preconditions hold.
     b. every data file the history produces: stored chunk statistics and segment ranges vs the rows decoded from the
        same segments; real pre-aggregation reads (Location.ReadData) of every function over boundary-biased ranges.
     c. the memtable statistics builders on generated records.
  3. the Coq model is evaluated on the same data: agg_rows on the rows of every query group; build_stats, the
     hypotheses of the chunk theorems, chunk_partial_repaired / _current on every chunk; mem_stats_repaired / _current on
     every memtable record. Model and Go oracle must agree everywhere; the variant comparison tells which variant of the
     two repaired defects the working tree implements.
"""
import json
import os
import re
import vlib
from vlib import coq_z, coq_list

PID = "C09"
# (C09-string-firstlast-alias was RETRACTED: it was an artifact of the export keeping unsafe strings that alias pooled
# chunk buffers; the export now copies them and 0 of ~400 such queries per run fail)
FINDING_CT = "C09-firstlast-chunk-time"
FINDING_ML = "C09-memtable-last-time"
FINDING_DR = "C09-desc-firstlast-rowpath"
FINDING_DS = "C09-desc-firstlast-shortcut"
FINDING_DD = "C09-desc-dup-rowpath"
FINDING_AS = "C09-aux-string-selector"
FINDING_AR = "C09-aux-row-index"
ALL_FINDINGS = (FINDING_CT, FINDING_ML, FINDING_DR, FINDING_DS, FINDING_DD, FINDING_AS, FINDING_AR)
FN = {"count": 0, "sum": 1, "min": 2, "max": 3, "first": 4, "last": 5, "mean": 6}
KIND = {0: 0, 1: 1, 2: 2, 3: 3}  # field id -> column kind (integer, float, boolean, string)


def explain(c, colgroup, open_ids):
    """which open finding explains the failing result `col:group` of check c (None = unexplained)"""
    ci, grp = colgroup.split(":", 1)
    call = c["calls"][int(ci)]
    gkey = grp.split("/")[0]
    hosts = (c.get("group_hosts") or {}).get(gkey) or [gkey]
    g = next((x for x in (c.get("groups") or []) if x["col"] == int(ci) and x["group"] == grp), None)
    if c.get("has_aux") and call["field"] == 3 and call["fn"] in ("first", "last") and c["preagg"] and FINDING_AS in open_ids:
        # `SELECT first|last(<string field>), <aux field>` on the shortcut: the selected string is overwritten
        return FINDING_AS
    if c.get("desc"):
        fl = call["fn"] in ("first", "last")
        # first()/last() return the value of another row
        wrong_row = g is not None and not g["null"] and any(r["v"] == g["v"] for r in (g["rows"] or []))
        if fl and c["preagg"] and c.get("group_by") and g is not None and not g["null"] and FINDING_DS in open_ids:
            return FINDING_DS     # (the row may even lie outside the time range)
        if fl and wrong_row and not c["preagg"] and FINDING_DR in open_ids:
            return FINDING_DR
        if not c["preagg"] and FINDING_DD in open_ids and any(h in (c.get("sig_dup") or []) for h in hosts):
            # row path over a series with a cross-generation duplicate inside the range: the overwritten version is
            # aggregated too (any function)
            return FINDING_DD
        if fl:
            return None
    # first()/last() served by the shortcut where the range enters / leaves a multi-segment chunk
    if FINDING_CT in open_ids and call["fn"] in ("first", "last") and c["preagg"] and any(h in (c.get("sig_chunk_time") or []) for h in hosts):
        return FINDING_CT
    # last() of a multi-call shortcut statement where the memtable has a later row carrying only another selected field
    if FINDING_ML in open_ids and call["fn"] == "last" and c["preagg"] and any(("%s:%s" % (ci, h)) in (c.get("sig_mem_last") or []) for h in hosts):
        return FINDING_ML
    return None


TEXT = {
    FINDING_CT: "first()/last() served from stored statistics takes the time of the whole chunk instead of the segment's, so a value of "
                "another container inside the range loses (or wins) wrongly",
    FINDING_ML: "last() in a multi-aggregate statement served from statistics: the memtable's last value is stamped with the time of its last "
                "ROW (which may carry only another field), so an older memtable value beats a newer value stored in a file",
    FINDING_DR: "ORDER BY time DESC on the row path (hint / field filter / time bucket): the series-level first()/last() reducers are positional, "
                "so first() returns the newest and last() the oldest value of the group / bucket",
    FINDING_DD: "ORDER BY time DESC on the row path (hint / field filter / time bucket): a (series,time) stored in two flush generations is "
                "aggregated twice - count/sum include the overwritten version, min/max/first/last may return it",
    FINDING_AS: "`SELECT first|last(<string field>), <aux field>` on the statistics shortcut: the memtable builder keeps the selected string as a "
                "slice of the column buffer that setColValInAux then rewrites - the statement returns other bytes (e.g. ' yy' for 'x y')",
    FINDING_AR: "`SELECT first|last|min|max(x), y` on the statistics shortcut returns y of another row (or y of no row): the memtable builders hand "
                "setColValInAux the index among non-null values where a row index is expected and leave the aux column untouched when the "
                "selected row's aux is null; FirstLastReader uses the chunk's row count as row index inside a segment",
    FINDING_DS: "ORDER BY time DESC with GROUP BY tag on the statistics shortcut: file reader and memtable builder compute positional first/last "
                "on reversed data and the partial results are merged by time: first()/last() return the value of another row",
}


def opt_pair(null, v, t):
    return "None" if null else "(Some (%s, %s))" % (coq_z(v), coq_z(t))


def mrow(r):
    return "(%s, %s)" % (coq_z(r["t"]), coq_list(["None" if x is None else "(Some %s)" % coq_z(x) for x in r["v"]]))


def chunk_term(ch):
    segs = coq_list([coq_list([mrow(r) for r in s]) for s in ch["segs"]])
    ranges = coq_list(["(%s, %s)" % (coq_z(a), coq_z(b)) for a, b in ch["ranges"]])
    sts = []
    for s in ch["stats"] or []:
        sts.append("(%d%%nat, %s, %s, %s, %s, %s)" % (
            s["f"], coq_z(KIND[s["f"]]), coq_z(s["count"]),
            "(Some %s)" % coq_z(s["sum"]) if s["hassum"] else "None",
            opt_pair(not s["hasmm"], s["min"], s["mint"]), opt_pair(not s["hasmm"], s["max"], s["maxt"])))
    reads = []
    for r in ch["reads"] or []:
        reads.append("(%s, %s, %d%%nat, %s, %s, %s)" % (coq_z(r["lo"]), coq_z(r["hi"]), r["f"], coq_z(KIND[r["f"]]), coq_z(FN[r["fn"]]),
                                                      opt_pair(r["null"], r["v"], r["t"])))
    return "(%s, %s, %s, %s)" % (segs, ranges, coq_list(sts), coq_list(reads))


def mem_term(mc):
    rows = coq_list([mrow(r) for r in mc["rows"]])
    ms = []
    for s in mc["stats"]:
        ms.append("(%d%%nat, %s, %s, %s, %s, %s, %s, %s, %s)" % (
            s["f"], coq_z(KIND[s["f"]]), "true" if s["set"] else "false", coq_z(s["count"]),
            "(Some %s)" % coq_z(s["sum"]) if s["hassum"] else "None",
            opt_pair(not s["hasmm"], s["min"], s["mint"]), opt_pair(not s["hasmm"], s["max"], s["maxt"]),
            opt_pair(not s["set"] or s["firstt"] < 0, s["first"], s["firstt"]), opt_pair(not s["set"] or s["lastt"] < 0, s["last"], s["lastt"])))
    return "(%s, %s)" % (rows, coq_list(ms))


def stat_tuple(s):
    return "(0%%nat, %s, %s, %s, %s, %s, %s, %s, %s)" % (
        coq_z(KIND[s["f"]]), "true" if s["set"] else "false", coq_z(s["count"]),
        "(Some %s)" % coq_z(s["sum"]) if s["hassum"] else "None",
        opt_pair(not s["hasmm"], s["min"], s["mint"]), opt_pair(not s["hasmm"], s["max"], s["maxt"]),
        opt_pair(not s["set"] or s["firstt"] < 0, s["first"], s["firstt"]), opt_pair(not s["set"] or s["lastt"] < 0, s["last"], s["lastt"]))


def rows1(rows):
    return coq_list(["(%s, %s)" % (coq_z(r["t"]), "None" if r["v"][0] is None else "(Some %s)" % coq_z(r["v"][0])) for r in (rows or [])])


def agg_term(ac):
    return "(%s, %s, %s)" % (rows1(ac["a"]), rows1(ac["b"]), stat_tuple(ac["got"]))


HDR = ("From Coq Require Import ZArith List Bool. From OG Require Import C09.Model C09.ChunkModel C09.Corr.\n"
       "Import ListNotations. Open Scope Z_scope.\n")


def coq_tuples(body, arity):
    """all tuples of `arity` numbers in the printed list `body`; None when some printed tuple could not be read.
    Coq's printer breaks lines anywhere - also right after an opening parenthesis - and adds scope suffixes (3%nat)."""
    flat = re.sub(r"%\w+", "", re.sub(r"\s+", "", body))
    tups = re.findall(r"\((-?\d+(?:,-?\d+){%d})\)" % (arity - 1), flat)
    if len(tups) != flat.count("("):
        return None
    return [tuple(int(x) for x in t.split(",")) for t in tups]


def parse_natlist(o):
    """the printed `M = [..] : list nat` as a list of ints; None when the output cannot be read completely"""
    m = re.search(r"M\s*=\s*(.*?)\s*:\s*list", o, re.S)
    if not m:
        return None
    flat = re.sub(r"%\w+", "", re.sub(r"\s+", "", m.group(1)))
    if not re.fullmatch(r"\[(\d+(;\d+)*)?\]", flat):
        return None
    return [int(x) for x in re.findall(r"\d+", flat)]


def parse_triples(o):
    m = re.search(r"M\s*=\s*(.*?)\s*:\s*list", o, re.S)
    if not m:
        return None
    return coq_tuples(m.group(1), 3)


def main(ck):
    ck.assumptions += [
        "the store-side part of a statement is run as the planner builds it (query schema by NewQuerySchemaWithSources, "
        "LogicalPlanBuilder series/measurement plan, LogicalReader, ChunkReader over shard.CreateCursor); the executor's upper "
        "aggregation stages are replaced by the harness' combination of partial results (sum of counts/sums, min of mins, max of "
        "maxes, earliest first, latest last)",
        "first / last mean the value with the smallest / greatest time whatever the ORDER BY (documented meaning, the executor's own "
        "FirstReduce / LastReduce compare times); rows of several series with the same time: any of them is accepted",
        "mean(x) is checked as the sum and count columns the reader ships for it",
        "max-rows-per-segment = 8 so that series span several segments; values are small integers / k/4 floats (exact sums)",
        "statements carry 1-3 aggregates; GROUP BY host (70 %), zone (two series per group, 20 %) or no tag (10 %); every column is compared on its own",
        "index visibility, compaction thresholds as in C02",
    ]
    ck.cov["trusted_base"] = ["Coq 8.16.1 kernel + vm_compute (case evaluation, Examples, refutation witnesses)",
                              "Go harness cmd/c09 + internal/tsdrv, python driver props/C09/run.py",
                              "engine/verif_export_c02.go, engine/verif_export_c09.go, engine/verif_export_c09_stats.go, "
                              "engine/immutable/verif_export_c09.go (thin wrappers)",
                              "coq/C07/ModelStats.v int_build (imported by C09/Corr.v for the cross-check of integer column statistics)"]
    ck.coq_audit(["C09"])
    # the cross-check imports C07's models, which need C07's generated constants file; a scratch tree's private Coq tree
    # does not carry generated files of other properties: seed it (only when absent) from the main tree
    c07gen = os.path.join(vlib.COQ, "C07", "Gen_Consts.v")
    if not os.path.exists(c07gen) and os.path.exists(os.path.join(vlib.COQSRC, "C07", "Gen_Consts.v")):
        os.makedirs(os.path.dirname(c07gen), exist_ok=True)
        open(c07gen, "w").write(open(os.path.join(vlib.COQSRC, "C07", "Gen_Consts.v")).read())
    ok = ck.coq_build(["C09/CrossC07Proofs.vo", "C09/CrossC07.vo", "C09/Corr.vo", "C09/Proofs.vo", "C09/ListSpec.vo", "C09/ChunkProofs.vo", "C09/BucketProofs.vo"])
    if ok:
        ck.coq_props(["C09/Props.v", "C09/Refuted.v"])
    binp = ck.go_build("./cmd/c09", "c09")
    if not binp:
        return
    if getattr(ck, "replay", None):
        rp = json.load(open(ck.replay))
        hist = rp.get("history", rp)
        tmp = os.path.join(ck.work, "replay.json")
        json.dump(hist, open(tmp, "w"))
        rc, out = ck.run([binp, "0", tmp], timeout=600)
        n = 1
    else:
        n = 200 if ck.tier == "quick" else 3000
        corpus = os.path.join(ck.verif, "corpus", PID)
        rc, out = ck.run([binp, str(n)], timeout=3000, env={"VERIF_CORPUS": corpus})
        n += len([f for f in os.listdir(corpus) if f.endswith(".case")]) if os.path.isdir(corpus) else 0
    hs = [json.loads(l) for l in out.splitlines() if l.startswith('{"case"')]
    mems, aggs = [], []
    for l in out.splitlines():
        if l.startswith('{"memcases"'):
            mems = json.loads(l)["memcases"] or []
        if l.startswith('{"aggcases"'):
            aggs = json.loads(l)["aggcases"] or []
    if rc != 0 or len(hs) != n:
        ck.broken.append("harness c09 failed rc=%d histories=%d/%d: %s" % (rc, len(hs), n, out[-600:]))
        if not hs:
            return
    for h in [h for h in hs if h.get("crash")][:3]:
        ck.broken.append("harness c09: history %d aborted: %s" % (h["case"], h["crash"][:300]))
    for h in [h for h in hs if h.get("chunk_err")][:3]:
        ck.broken.append("harness c09: history %d: reading the stored statistics / chunks failed: %s" % (h["case"], h["chunk_err"][:300]))

    # ---- model evaluation: query groups
    groups = []   # (history idx, check idx, group idx, oracle_ok)
    terms = []
    for hi, h in enumerate(hs):
        for ci, c in enumerate(h.get("checks") or []):
            if not c["compared"] or (c.get("fail") or "").endswith("error"):
                continue
            for gi, g in enumerate(c["groups"] or []):
                rows = coq_list(["(%s, %s)" % (coq_z(r["t"]), coq_z(r["v"])) for r in (g["rows"] or [])])
                got = "None" if g["null"] else "(Some %s)" % coq_z(g["v"])
                terms.append("(%s, %s, %s, %s)" % (coq_z(FN[g["fn"]]), rows, got, coq_z(g.get("cnt", 0))))
                groups.append((hi, ci, gi, g["want_ok"]))
    bterms = []   # bucketed groups: (width, bucket start, row times)
    for hi, h in enumerate(hs):
        for c in h.get("checks") or []:
            if c["bucket"] and c["compared"]:
                for g in c["groups"] or []:
                    if g["rows"] and "/" in g["group"]:
                        bterms.append("(%s, %s, %s)" % (coq_z(c["bucket"]), coq_z(int(g["group"].rsplit("/", 1)[1])), coq_list([coq_z(r["t"]) for r in g["rows"]])))
    aterms, agroups = [], []   # selector-with-aux groups: (fn, rows with aux, selected value, aux that came with it)
    for hi, h in enumerate(hs):
        for ci, c in enumerate(h.get("checks") or []):
            if not c.get("has_aux"):
                continue
            for gi, g in enumerate(c["groups"] or []):
                if g.get("aux_seen") and g["col"] == 0:
                    rows = coq_list(["(%s, %s, %s)" % (coq_z(r["t"]), coq_z(r["v"]), "None" if r.get("a") is None else "(Some %s)" % coq_z(r["a"])) for r in (g["rows"] or [])])
                    aterms.append("(%s, %s, %s, %s)" % (coq_z(FN[g["fn"]]), rows, coq_z(g["v"]), "None" if g.get("aux_got") is None else "(Some %s)" % coq_z(g["aux_got"])))
                    agroups.append((hi, ci, gi, bool(g.get("aux_ok"))))
    chunks = [(hi, k) for hi, h in enumerate(hs) for k in range(len(h.get("chunks") or []))]
    files = []
    shard = 1500
    ngs = 0
    if ok:
        for a in range(0, len(terms), shard):
            txt = (HDR + "Definition cases : list (Z * list (Z * Z) * option Z * Z) := [\n%s\n].\n"
                   "Definition M := Eval vm_compute in mismatches cases.\nPrint M.\n") % ";\n".join(terms[a:a + shard])
            files.append(("c09cases%d" % (a // shard), txt))
        ngs = len(files)
        cshard = 60
        for a in range(0, len(chunks), cshard):
            txt = (HDR + "Definition cases : list chunk_case := [\n%s\n].\n"
                   "From OG Require Import C09.CrossC07.\nDefinition M := Eval vm_compute in flat_chunks7 cases.\nPrint M.\n") % ";\n".join(chunk_term(hs[hi]["chunks"][k]) for hi, k in chunks[a:a + cshard])
            files.append(("c09chunks%d" % (a // cshard), txt))
        ncs = len(files) - ngs
        # canary: 20 copies of a chunk whose first stored statistic is off by one MUST come back as 20 (copy, 1, 0) entries
        # (20: the printed list is then wrapped over several lines, also right after an opening parenthesis, as real results are)
        ncanary = 0
        for hi, k in chunks:
            ch = hs[hi]["chunks"][k]
            if ch.get("stats") and not ch.get("stat_fail"):
                bad = dict(ch, stats=[dict(ch["stats"][0], count=ch["stats"][0]["count"] + 1)] + list(ch["stats"][1:]))
                ncanary = 20
                canary_txt = (HDR + "Definition cases : list chunk_case := [\n%s\n].\n"
                              "Definition M := Eval vm_compute in flat_chunks cases.\nPrint M.\n") % ";\n".join([chunk_term(bad)] * ncanary)
                break
        mshard = 400
        for a in range(0, len(mems), mshard):
            txt = (HDR + "Definition cases : list mem_case := [\n%s\n].\n"
                   "Definition M := Eval vm_compute in flat_mem cases.\nPrint M.\n") % ";\n".join(mem_term(m) for m in mems[a:a + mshard])
            files.append(("c09mem%d" % (a // mshard), txt))
        if bterms:
            files.append(("c09buckets", HDR + "Definition cases : list (Z * Z * list Z) := [\n%s\n].\n"
                          "Definition M := Eval vm_compute in bucket_mismatches cases.\nPrint M.\n" % ";\n".join(bterms)))
        if ncanary:
            files.append(("c09canary", canary_txt))
        eterms = ["(%s, %s, %s)" % tuple("true" if x else "false" for x in (bool(c["bucket"]), bool(c["filter"]), bool(c.get("schema_preagg"))))
                  for h in hs for c in (h.get("checks") or []) if not (c.get("fail") or "").endswith("error") and "schema_preagg" in c]
        if eterms:
            # canary (last case): a bucketed statement the schema calls eligible - must be reported
            files.append(("c09elig", HDR + "Definition cases : list (bool * bool * bool) := [\n%s\n].\n"
                          "Definition M := Eval vm_compute in eligible_mismatches cases.\nPrint M.\n" % ";\n".join(eterms + ["(true, false, true)"])))
        if aggs:
            # the last case is a canary: two containers with one value each and a combined count of 3 - it must be reported
            gcan = "([(1, Some 4)], [(2, Some 6)], (0%nat, 0, true, 3, Some 10, Some (4, 1), Some (6, 2), Some (4, 1), Some (6, 2)))"
            files.append(("c09agg", HDR + "Definition cases : list agg_case := [\n%s\n].\n"
                          "Definition M := Eval vm_compute in agg_mismatches cases.\nPrint M.\n" % ";\n".join([agg_term(a) for a in aggs] + [gcan])))
        if aterms:
            # the last case is a canary: last() = 5 at t=2 whose aux is the aux of ANOTHER row - it must be reported
            acan = "(5, [(1, 9, Some 1); (2, 5, Some 2)], 5, Some 1)"
            files.append(("c09aux", HDR + "Definition cases : list (Z * list (Z * Z * option Z) * Z * option Z) := [\n%s\n].\n"
                          "Definition M := Eval vm_compute in aux_mismatches cases.\nPrint M.\n" % ";\n".join(aterms + [acan])))
    model_bad = set()
    aux_model_bad = None
    agg_model_bad = None
    chunk_res = {}   # (global chunk idx) -> {kind: set(idx)}
    mem_res = {}
    model_ok = ok
    if ok and files:
        outs = ck.coq_eval_many(files, timeout=900)
        for k, (rc2, o) in enumerate(outs):
            if files[k][0] == "c09canary":
                tr = parse_triples(o) if rc2 == 0 else None
                if tr is None or {(i, 1, 0) for i in range(ncanary)} - set(tr):
                    ck.broken.append("C09 canary: a corrupted case was not reported by the model evaluation (%d copies of a chunk with a "
                                     "stored count off by one; read back: %s)" % (ncanary, "nothing" if tr is None else sorted(tr)[:20]))
            elif k < ngs:
                m = re.search(r"M\s*=\s*(.*?)\s*:\s*list", o, re.S)
                if rc2 != 0 or not m:
                    ck.broken.append("C09 model evaluation failed on group shard %d: %s" % (k, o[-500:]))
                    model_ok = False
                    continue
                for x in re.findall(r"(\d+)(?:%nat)?", m.group(1)):
                    model_bad.add(k * shard + int(x))
            elif files[k][0] == "c09elig":
                lst = parse_natlist(o) if rc2 == 0 else None
                if lst is None or len(eterms) not in lst:
                    ck.broken.append("C09 eligibility model evaluation failed or its canary was not reported: %s" % o[-400:])
                    model_ok = False
                elif set(lst) - {len(eterms)}:
                    ck.broken.append("C09 eligibility: the model's `eligible` and the shard's QuerySchema.MatchPreAgg disagree on %d statements "
                                     "(first: case index %d)" % (len(lst) - 1, min(set(lst) - {len(eterms)})))
                ck.cov["eligibility_statements_compared"] = len(eterms)
            elif files[k][0] == "c09agg":
                lst = parse_natlist(o) if rc2 == 0 else None
                if lst is None or len(aggs) not in lst:
                    ck.broken.append("C09 combine model evaluation failed or its canary was not reported: %s" % o[-400:])
                    model_ok = False
                else:
                    agg_model_bad = set(lst) - {len(aggs)}
            elif files[k][0] == "c09aux":
                lst = parse_natlist(o) if rc2 == 0 else None
                if lst is None or len(aterms) not in lst:
                    ck.broken.append("C09 aux model evaluation failed or its canary was not reported: %s" % o[-400:])
                    model_ok = False
                else:
                    aux_model_bad = set(lst) - {len(aterms)}
            elif files[k][0] == "c09buckets":
                m = re.search(r"M\s*=\s*(.*?)\s*:\s*list", o, re.S)
                if rc2 != 0 or not m:
                    ck.broken.append("C09 bucket model evaluation failed: %s" % o[-500:])
                    model_ok = False
                elif re.findall(r"\d+", m.group(1)):
                    ck.broken.append("C09 bucket model: bucket_of disagrees with the window the engine reported for %d (group, bucket) results"
                                     % len(re.findall(r"\d+", m.group(1))))
            else:
                tr = parse_triples(o) if rc2 == 0 else None
                if tr is None:
                    ck.broken.append("C09 model evaluation failed on %s: %s" % (files[k][0], o[-500:]))
                    model_ok = False
                    continue
                if files[k][0] == "c09buckets":
                    continue
                if k < ngs + ncs:
                    base = (k - ngs) * cshard
                    for a, kind, i in tr:
                        chunk_res.setdefault(base + a, {}).setdefault(kind, set()).add(i)
                else:
                    base = (k - ngs - ncs) * mshard
                    for a, kind, i in tr:
                        mem_res.setdefault(base + a, {}).setdefault(kind, set()).add(i)

    # ---- verdicts
    # findings of this property that are in the per-property fragment but not (yet) merged into known_findings.json
    frag = os.path.join(ck.verif, "props", PID, "findings.json")
    if os.path.exists(frag):
        have = {f["id"] for f in ck.findings}
        ck.findings += [f for f in json.load(open(frag))["findings"] if f["property"] == PID and f["id"] not in have]
    open_ids = {fid for fid in ALL_FINDINGS if ck.match_finding(fid) is not None}
    viol, checks, compared, skipped = 0, 0, 0, 0
    known = {f: 0 for f in ALL_FINDINGS}
    eligible = {f: 0 for f in ALL_FINDINGS}
    modes, ncalls, shapes = {}, {}, {}
    aux = {"statements": 0, "groups_checked": 0, "aux_value_mismatches": 0}

    def report(kind, what, detail):
        nonlocal viol
        viol += 1
        if viol <= 4:
            d = {"kind": kind, "what": what}
            d.update(detail)
            ck.violation(d)

    for hi, h in enumerate(hs):
        for c in h.get("checks") or []:
            checks += 1
            compared += bool(c["compared"])
            skipped += bool(c.get("skipped"))
            mode = "hint" if c["hint"] else "filter" if c["filter"] else "bucket" if c["bucket"] else "shortcut" if c["preagg"] else "rows"
            ncalls[str(len(c["calls"]))] = ncalls.get(str(len(c["calls"])), 0) + 1
            shape = "group_by=%s%s%s" % (c.get("group_by") or "-", ",desc" if c.get("desc") else "", ",tagfilter" if c.get("tag_filter") else "")
            shapes[shape] = shapes.get(shape, 0) + 1
            fl = [cl["fn"] for cl in c["calls"] if cl["fn"] in ("first", "last")]
            for call in c["calls"]:
                modes["%s/%s" % (call["fn"], mode)] = modes.get("%s/%s" % (call["fn"], mode), 0) + 1
            eligible[FINDING_CT] += bool(c["preagg"] and c.get("sig_chunk_time") and not c.get("desc"))
            eligible[FINDING_ML] += bool(c["preagg"] and c.get("sig_mem_last") and not c.get("desc"))
            eligible[FINDING_DR] += bool(c.get("desc") and fl and not c["preagg"] and c["compared"])
            eligible[FINDING_DS] += bool(c.get("desc") and fl and c["preagg"] and c["compared"] and c.get("group_by"))
            eligible[FINDING_AS] += bool(c.get("has_aux") and c["calls"][0]["field"] == 3 and c["preagg"] and c["compared"])
            eligible[FINDING_DD] += bool(c.get("desc") and not c["preagg"] and c["compared"] and c.get("sig_dup"))
            if c.get("has_aux"):
                aux["statements"] += 1
                aux["groups_checked"] += c.get("aux_checked", 0)
                eligible[FINDING_AR] += bool(c["preagg"] and c.get("aux_checked"))
                if c.get("aux_fail"):
                    aux["aux_value_mismatches"] += 1
                    aux.setdefault("first_mismatch", {"sql": c["sql"], "what": c["aux_fail"], "history_case": h["case"]})
                    # the aux value of a statistics-served selector statement is part of the statement's answer
                    if c["preagg"] and FINDING_AR in open_ids:
                        known[FINDING_AR] += 1
                        ck.known_finding(FINDING_AR, TEXT[FINDING_AR])
                    else:
                        slim = {k: h[k] for k in ("case", "nser", "nodup_mode", "ops")}
                        report("selector-aux", c["aux_fail"], {"check": c, "history": slim})
            if not c.get("fail"):
                continue
            why = [explain(c, cg, open_ids) for cg in (c.get("fail_cols") or [])] if c.get("fail_cols") else [None]
            if why and all(w is not None for w in why):
                for w in set(why):
                    known[w] += 1
                    ck.known_finding(w, TEXT[w])
            else:
                slim = {k: h[k] for k in ("case", "nser", "nodup_mode", "ops")}
                report("direct-oracle", c["fail"], {"check": c, "history": slim, "dup_history": h["dup"], "explained": why})
    if model_ok:
        for idx, (hi, ci, gi, want_ok) in enumerate(groups):
            bad = idx in model_bad
            if bad == want_ok:  # model and Go oracle disagree about this group
                c = hs[hi]["checks"][ci]
                ck.broken.append("correspondence C09: model agg_rows and the harness oracle disagree on history %d query `%s` group %s"
                                 % (hs[hi]["case"], c["sql"], c["groups"][gi]["group"]))
                ck.nofail_detail = {"kind": "correspondence", "check": c, "group": c["groups"][gi]}
                break

    if model_ok and aux_model_bad is not None:
        for idx, (hi, ci, gi, aux_ok) in enumerate(agroups):
            if (idx in aux_model_bad) == aux_ok:
                c = hs[hi]["checks"][ci]
                ck.broken.append("correspondence C09: the model's check_aux and the harness oracle disagree on the aux value of `%s` group %s (history %d)"
                                 % (c["sql"], c["groups"][gi]["group"], hs[hi]["case"]))
                ck.nofail_detail = {"kind": "correspondence-aux", "check": c}
                break

    # ---- stored statistics and chunk reads
    nreads, nstats, nchunks_multi, time_only, all_null = 0, 0, 0, 0, 0
    reads_by = {}
    variant_reader = {"repaired": 0, "current": 0}   # reads that tell the two variants apart and match this one
    for gidx, (hi, k) in enumerate(chunks):
        h, ch = hs[hi], hs[hi]["chunks"][k]
        res = chunk_res.get(gidx, {})
        nstats += len(ch.get("stats") or [])
        nchunks_multi += len(ch["segs"]) >= 2
        time_only += bool(ch.get("time_only"))
        all_null += len(ch.get("all_null_cols") or [])
        slimch = {x: ch[x] for x in ("seq", "level", "order", "series", "segs", "ranges", "stats")}
        ctx = {"history_case": h["case"], "chunk": slimch, "history": {x: h[x] for x in ("case", "nser", "nodup_mode", "ops")}}
        if model_ok and 0 in res:
            ck.broken.append("C09 chunk theorems: their hypotheses (non-empty segments, strictly ascending times, stored segment ranges = "
                             "first/last time of the segment) do not hold for file seq %d series %d of history %d" % (ch["seq"], ch["series"], h["case"]))
            ck.nofail_detail = ctx
        if model_ok and 4 in res:
            ck.broken.append("C09/C07 cross-check: C07's builder model (int_build over the decoded segments) and C09's build_stats disagree on an "
                             "integer column of file seq %d series %d of history %d" % (ch["seq"], ch["series"], h["case"]))
            ck.nofail_detail = ctx
        go_bad = bool(ch.get("stat_fail"))
        if go_bad:
            report("stored-statistics", "the chunk statistics stored in the data file differ from the rows decoded from its segments: " + ch["stat_fail"], ctx)
        if ch.get("stat_time_fail"):
            ck.broken.append("C09 chunk theorems: hypothesis c_stats = build_stats fails on the TIME of a stored integer/float min/max (values are "
                             "right; the model's tie rule 'earliest row carrying the extreme value' no longer mirrors the code): file seq %d series %d "
                             "of history %d: %s" % (ch["seq"], ch["series"], h["case"], ch["stat_time_fail"]))
            ck.nofail_detail = ctx
        elif model_ok and bool(res.get(1)) != go_bad and not (0 in res):
            ck.broken.append("correspondence C09: model build_stats and the harness disagree about the stored statistics of file seq %d series %d "
                             "of history %d (model mismatches %s, harness: %s)" % (ch["seq"], ch["series"], h["case"], sorted(res.get(1, [])), ch.get("stat_fail")))
            ck.nofail_detail = ctx
        for ri, r in enumerate(ch.get("reads") or []):
            nreads += 1
            key = "%s/%s%s" % (r["fn"], "asc" if r["asc"] else "desc", "/multiseg" if len(ch["segs"]) >= 2 else "")
            reads_by[key] = reads_by.get(key, 0) + 1
            rep_bad, cur_bad = ri in res.get(2, ()), ri in res.get(3, ())
            rctx = dict(ctx, read=r)
            if not r["asc"] and r["fn"] in ("first", "last"):
                eligible[FINDING_DS] += 1
                if not r["ok"]:
                    if FINDING_DS in open_ids:
                        known[FINDING_DS] += 1
                        ck.known_finding(FINDING_DS, TEXT[FINDING_DS])
                    else:
                        report("chunk-read", "pre-aggregation read of %s under DESC: %s" % (r["fn"], r.get("why")), rctx)
                continue
            if model_ok and rep_bad != cur_bad:
                variant_reader["current" if rep_bad else "repaired"] += 1
            if model_ok and rep_bad and not cur_bad and r["fn"] in ("first", "last"):
                # the working tree implements the pre-4c0ceca reader (chunk time instead of segment time)
                if FINDING_CT in open_ids:
                    known[FINDING_CT] += 1
                    ck.known_finding(FINDING_CT, TEXT[FINDING_CT])
                else:
                    report("chunk-read", "FirstLastReader implements the `_current` variant (C09-firstlast-chunk-time is back): %s(%s) over %d..%d: %s"
                           % (r["fn"], r["f"], r["lo"], r["hi"], r.get("why")), rctx)
                continue
            if not r["ok"]:
                report("chunk-read", "pre-aggregation read %s(field %d) over %d..%d of one chunk: %s" % (r["fn"], r["f"], r["lo"], r["hi"], r.get("why")), rctx)
            if model_ok and rep_bad == r["ok"]:
                ck.broken.append("correspondence C09: chunk_partial_repaired and the harness oracle disagree on a pre-aggregation read "
                                 "(history %d file seq %d series %d %s field %d %d..%d)" % (h["case"], ch["seq"], ch["series"], r["fn"], r["f"], r["lo"], r["hi"]))
                ck.nofail_detail = rctx

    # ---- memtable builders
    variant_mem = {"repaired": 0, "current": 0}
    for mi, mc in enumerate(mems):
        res = mem_res.get(mi, {})
        rep_bad, cur_bad = bool(res.get(1)), bool(res.get(2))
        mctx = {"memcase": mc}
        if model_ok and 0 in res:
            ck.broken.append("C09 memtable case %d: generated record is not in ascending time order" % mi)
        if mc.get("time_only"):
            ck.broken.append("C09 memtable model: the builder's min/max TIME is not the earliest row carrying the value (values are right; the model's "
                             "tie rule no longer mirrors the code): " + mc["time_only"])
            ck.nofail_detail = mctx
            continue
        if model_ok and rep_bad != cur_bad:
            variant_mem["current" if rep_bad else "repaired"] += 1
        if model_ok and rep_bad and not cur_bad:
            if FINDING_ML in open_ids:
                known[FINDING_ML] += 1
                ck.known_finding(FINDING_ML, TEXT[FINDING_ML])
            else:
                report("memtable-statistics", "the memtable statistics builder implements the `_current` variant (C09-memtable-last-time is back): "
                       + str(mc.get("why")), mctx)
            continue
        if not mc["ok"]:
            report("memtable-statistics", "memtable statistics differ from the functions over the record's rows: " + str(mc.get("why")), mctx)
        if model_ok and rep_bad == mc["ok"]:
            ck.broken.append("correspondence C09: mem_stats_repaired and the harness oracle disagree on memtable case %d" % mi)
            ck.nofail_detail = mctx
    # ---- combination of partial results (immutable.AggregateData vs combine)
    agg_shared = 0
    for ai, ac in enumerate(aggs):
        ta = {r["t"] for r in (ac["a"] or []) if r["v"][0] is not None}
        agg_shared += bool(ta & {r["t"] for r in (ac["b"] or []) if r["v"][0] is not None})
        actx = {"aggcase": ac}
        if ac.get("tie"):
            ck.broken.append("C09 combine model: AggregateData's min/max TIME is not the earliest row carrying the value (values are right; the "
                             "model's tie rule no longer mirrors the code): " + ac["tie"])
            ck.nofail_detail = actx
            continue
        if not ac["ok"]:
            report("combine", "immutable.AggregateData of the partial results of two containers differs from the functions over the rows of both: "
                   + str(ac.get("why")), actx)
        if model_ok and agg_model_bad is not None and (ai in agg_model_bad) == ac["ok"]:
            ck.broken.append("correspondence C09: the model's combine and the harness oracle disagree on combination case %d" % ai)
            ck.nofail_detail = actx
    ck.cov["combine_cases"] = {"total": len(aggs), "containers_sharing_a_timestamp": agg_shared}
    for fid in open_ids:
        if known[fid] == 0 and eligible[fid] > 0:
            ck.notes.append("open finding %s did not reproduce on %d eligible queries/reads: stale (tree looks repaired)" % (fid, eligible[fid]))

    # ---- coverage
    nontriv = set()
    segs = {}
    for h in hs:
        segs[str(h.get("max_segments", 0))] = segs.get(str(h.get("max_segments", 0)), 0) + 1
        for c in h.get("checks") or []:
            if c["compared"] and any(len(g["rows"] or []) >= 2 for g in c["groups"] or []) and (h.get("files", 0) >= 2 or h.get("max_segments", 0) >= 2):
                nontriv.add(c["sql"] + "|" + str(h["case"]))
    ck.cov["evaluations"] = compared
    ck.cov["histories"] = len(hs)
    ck.cov["checks_total"] = checks
    ck.cov["checks_skipped_by_precondition"] = skipped
    ck.cov["distinct_nontrivial"] = len(nontriv)
    ck.cov["rule"] = ("evaluations = paired queries whose precondition holds (hint | filter | bucket | history without cross-generation "
                      "duplicate) and that were compared with the rows of the plain select; non-trivial = compared query with a group of "
                      ">= 2 rows on a shard holding >= 2 files or a series with >= 2 segments; distinct = (history, statement)")
    ck.cov["query_histogram(fn/path)"] = modes
    ck.cov["statement_shapes"] = shapes
    ck.cov["selector_with_aux_field"] = aux
    ck.cov["max_segments_histogram"] = segs
    ck.cov["histories_with_cross_generation_dup"] = sum(1 for h in hs if h.get("dup"))
    ck.cov["model_groups_evaluated"] = len(groups)
    ck.cov["bucketed_groups_checked_against_bucket_of"] = len(bterms)
    ck.cov["stored_statistics"] = {"chunks(file x series)": len(chunks), "chunks_with_>=2_segments": nchunks_multi, "column_statistics_compared": nstats,
                                   "chunks_with_boolean_min/max_time_observation": time_only,
                                   "columns_without_values_in_their_chunk(not read at component level)": all_null}
    ck.cov["chunk_reads"] = {"total": nreads, "by_fn/order": reads_by, "variant_distinguishing_reads_matching": variant_reader}
    ck.cov["memtable_cases"] = {"total": len(mems), "variant_distinguishing_cases_matching": variant_mem}
    ck.cov["traces_validated_against_impl"] = (len(groups) - (len(model_bad) if model_bad else 0)) + nreads + nstats + len(mems) + len(aggs)
    ck.cov["known_finding_queries"] = known
    ck.cov["calls_per_statement"] = ncalls
    ck.cov["samples"] = [c["sql"] for h in hs[:3] for c in (h.get("checks") or [])[:2]]
    if time_only:
        ck.notes.append("observation (not a failure of C09): %d chunks store a boolean column's min/max TIME that is not the time of the first "
                        "row carrying that value (BooleanPreAgg.addValues indexes times by value position, ignoring nulls); no query value "
                        "depends on it" % time_only)
