"""C09 - aggregates served from stored statistics equal aggregates over the rows. See DESIGN.md section 4 C09 and
props/C09/NOTES.md.

  1. audit + build coq/C09, re-check Props.v / Refuted.v.
  2. harness cmd/c09 on the repository's working tree: C02-style histories on a real shard; paired queries
     `select f(x)` (with / without exact-statistics hint, field filter, time bucket; range ends on and around file and
     segment boundaries) vs the plain `select x`, both through the store-side reader the planner builds. DIRECT ORACLE:
     combined partial results == f over the rows of the plain select whenever the statement's preconditions hold.
  3. the Coq model's agg_rows (= build_stats) is evaluated on the same rows and compared with the shard's answers.
"""
import json
import os
import re
import vlib
from vlib import coq_z, coq_list

PID = "C09"
# (C09-string-firstlast-alias was RETRACTED: it was an artifact of the export keeping unsafe strings that alias pooled
# chunk buffers; the export now copies them and 0 of ~400 such queries per run fail)
FINDING_CT = "C09-firstlast-chunk-time"
FINDING_ML = "C09-memtable-last-time"
FN = {"count": 0, "sum": 1, "min": 2, "max": 3, "first": 4, "last": 5}
STRING_FIELD = 3


def explain(c, colgroup, open_ids):
    """which open finding explains the failing result `col:group` of check c (None = unexplained)"""
    ci, grp = colgroup.split(":", 1)
    call = c["calls"][int(ci)]
    host = grp.split("/")[0]
    # first()/last() served by the shortcut where the range enters / leaves a multi-segment chunk
    if FINDING_CT in open_ids and call["fn"] in ("first", "last") and c["preagg"] and host in (c.get("sig_chunk_time") or []):
        return FINDING_CT
    # last() of a multi-call shortcut statement where the memtable has a later row carrying only another selected field
    if FINDING_ML in open_ids and call["fn"] == "last" and c["preagg"] and ("%s:%s" % (ci, host)) in (c.get("sig_mem_last") or []):
        return FINDING_ML
    return None


TEXT = {
    FINDING_CT: "first()/last() served from stored statistics takes the time of the whole chunk instead of the segment's, so a value of "
                "another container inside the range loses (or wins) wrongly",
    FINDING_ML: "last() in a multi-aggregate statement served from statistics: the memtable's last value is stamped with the time of its last "
                "ROW (which may carry only another field), so an older memtable value beats a newer value stored in a file",
}


def main(ck):
    ck.assumptions += [
        "the store-side part of a statement is run as the planner builds it (LogicalPlanBuilder series/measurement plan, "
        "LogicalReader, ChunkReader over shard.CreateCursor); the executor's upper aggregation stages are replaced by the "
        "harness' combination of partial results (sum of counts/sums, min of mins, max of maxes, earliest first, latest last)",
        "mean is checked as sum and count (the planner rewrites mean into sum/count)",
        "max-rows-per-segment = 8 so that series span several segments; values are small integers / k/4 floats (exact sums)",
        "queries group by host (one series per group), so first/last have no cross-series time ties",
        "statements carry 1-3 aggregates, mostly over different fields (mean as the sum/count pair); every column is compared on its own",
        "index visibility, compaction thresholds as in C02",
    ]
    ck.cov["trusted_base"] = ["Coq 8.16.1 kernel + vm_compute (case evaluation, Examples, refutation witness)",
                              "Go harness cmd/c09 + internal/tsdrv, python driver props/C09/run.py",
                              "engine/verif_export_c02.go, engine/verif_export_c09.go (thin wrappers)"]
    ck.coq_audit(["C09"])
    ok = ck.coq_build(["C09/Corr.vo", "C09/Proofs.vo", "C09/ListSpec.vo", "C09/ChunkProofs.vo", "C09/BucketProofs.vo"])
    if ok:
        ck.coq_props(["C09/Props.v", "C09/Refuted.v"])
    binp = ck.go_build("./cmd/c09", "c09")
    if not binp:
        return
    if getattr(ck, "replay", None):
        rp = json.load(open(ck.replay))
        hist = rp.get("history", rp)
        tmp = os.path.join(ck.work, "replay.json")
        json.dump(hist, open(tmp, "w"))
        rc, out = ck.run([binp, "0", tmp], timeout=600)
        n = 1
    else:
        n = 200 if ck.tier == "quick" else 3000
        corpus = os.path.join(ck.verif, "corpus", PID)
        rc, out = ck.run([binp, str(n)], timeout=3000, env={"VERIF_CORPUS": corpus})
        n += len([f for f in os.listdir(corpus) if f.endswith(".case")]) if os.path.isdir(corpus) else 0
    hs = [json.loads(l) for l in out.splitlines() if l.startswith('{"case"')]
    if rc != 0 or len(hs) != n:
        ck.broken.append("harness c09 failed rc=%d histories=%d/%d: %s" % (rc, len(hs), n, out[-600:]))
        if not hs:
            return
    for h in [h for h in hs if h.get("crash")][:3]:
        ck.broken.append("harness c09: history %d aborted: %s" % (h["case"], h["crash"][:300]))

    # ---- model evaluation on every compared group
    groups = []   # (history idx, check idx, group idx, oracle_ok)
    terms = []
    for hi, h in enumerate(hs):
        for ci, c in enumerate(h.get("checks") or []):
            if not c["compared"] or (c.get("fail") or "").endswith("error"):
                continue
            for gi, g in enumerate(c["groups"] or []):
                rows = coq_list(["(%s, %s)" % (coq_z(r["t"]), coq_z(r["v"])) for r in (g["rows"] or [])])
                got = "None" if g["null"] else "(Some %s)" % coq_z(g["v"])
                terms.append("(%s, %s, %s)" % (coq_z(FN[g["fn"]]), rows, got))
                groups.append((hi, ci, gi, g["want_ok"]))
    model_bad = set()
    if ok and terms:
        shard = 1500
        files = []
        for a in range(0, len(terms), shard):
            txt = ("From Coq Require Import ZArith List Bool. From OG Require Import C09.Model C09.Corr.\n"
                   "Import ListNotations. Open Scope Z_scope.\n"
                   "Definition cases : list (Z * list (Z * Z) * option Z) := [\n%s\n].\n"
                   "Definition M := Eval vm_compute in mismatches cases.\nPrint M.\n") % ";\n".join(terms[a:a + shard])
            files.append(("c09cases%d" % (a // shard), txt))
        outs = ck.coq_eval_many(files, timeout=600)
        for k, (rc2, o) in enumerate(outs):
            m = re.search(r"M\s*=\s*(.*?)\s*:\s*list", o, re.S)
            if rc2 != 0 or not m:
                ck.broken.append("C09 model evaluation failed on shard %d: %s" % (k, o[-500:]))
                continue
            for x in re.findall(r"(\d+)(?:%nat)?", m.group(1)):
                model_bad.add(k * shard + int(x))
    elif not ok:
        model_bad = None

    # ---- verdicts
    # findings of this property that are in the per-property fragment but not (yet) merged into known_findings.json
    frag = os.path.join(ck.verif, "props", PID, "findings.json")
    if os.path.exists(frag):
        have = {f["id"] for f in ck.findings}
        ck.findings += [f for f in json.load(open(frag))["findings"] if f["property"] == PID and f["id"] not in have]
    open_ids = {fid for fid in (FINDING_CT, FINDING_ML) if ck.match_finding(fid) is not None}
    viol, checks, compared, skipped = 0, 0, 0, 0
    known = {FINDING_CT: 0, FINDING_ML: 0}
    eligible = {FINDING_CT: 0, FINDING_ML: 0}
    modes, ncalls = {}, {}
    for hi, h in enumerate(hs):
        for c in h.get("checks") or []:
            checks += 1
            compared += bool(c["compared"])
            skipped += bool(c.get("skipped"))
            mode = "hint" if c["hint"] else "filter" if c["filter"] else "bucket" if c["bucket"] else "shortcut" if c["preagg"] else "rows"
            ncalls[str(len(c["calls"]))] = ncalls.get(str(len(c["calls"])), 0) + 1
            for call in c["calls"]:
                modes["%s/%s" % (call["fn"], mode)] = modes.get("%s/%s" % (call["fn"], mode), 0) + 1
            eligible[FINDING_CT] += bool(c["preagg"] and c.get("sig_chunk_time"))
            eligible[FINDING_ML] += bool(c["preagg"] and c.get("sig_mem_last"))
            if not c.get("fail"):
                continue
            why = [explain(c, cg, open_ids) for cg in (c.get("fail_cols") or [])] if not c["fail"].endswith("error") else [None]
            if why and all(w is not None for w in why):
                for w in set(why):
                    known[w] += 1
                    ck.known_finding(w, TEXT[w])
            else:
                viol += 1
                if viol <= 3:
                    slim = {k: h[k] for k in ("case", "nser", "nodup_mode", "ops")}
                    ck.violation({"kind": "direct-oracle", "what": c["fail"], "check": c, "history": slim, "dup_history": h["dup"],
                                  "explained": why})
    if model_bad is not None:
        for idx, (hi, ci, gi, want_ok) in enumerate(groups):
            bad = idx in model_bad
            if bad == want_ok:  # model and Go oracle disagree about this group
                c = hs[hi]["checks"][ci]
                ck.broken.append("correspondence C09: model agg_rows and the harness oracle disagree on history %d query `%s` group %s"
                                 % (hs[hi]["case"], c["sql"], c["groups"][gi]["group"]))
                ck.nofail_detail = {"kind": "correspondence", "check": c, "group": c["groups"][gi]}
                break
    for fid in open_ids:
        if known[fid] == 0 and eligible[fid] > 0:
            ck.notes.append("open finding %s did not reproduce on %d eligible queries: stale (tree looks repaired)" % (fid, eligible[fid]))

    # ---- coverage
    nontriv = set()
    segs = {}
    for h in hs:
        segs[str(h.get("max_segments", 0))] = segs.get(str(h.get("max_segments", 0)), 0) + 1
        for c in h.get("checks") or []:
            if c["compared"] and any(len(g["rows"] or []) >= 2 for g in c["groups"] or []) and (h.get("files", 0) >= 2 or h.get("max_segments", 0) >= 2):
                nontriv.add(c["sql"] + "|" + str(h["case"]))
    ck.cov["evaluations"] = compared
    ck.cov["histories"] = len(hs)
    ck.cov["checks_total"] = checks
    ck.cov["checks_skipped_by_precondition"] = skipped
    ck.cov["distinct_nontrivial"] = len(nontriv)
    ck.cov["rule"] = ("evaluations = paired queries whose precondition holds (hint | filter | bucket | history without cross-generation "
                      "duplicate) and that were compared with the rows of the plain select; non-trivial = compared query with a group of "
                      ">= 2 rows on a shard holding >= 2 files or a series with >= 2 segments; distinct = (history, statement)")
    ck.cov["query_histogram(fn/path)"] = modes
    ck.cov["max_segments_histogram"] = segs
    ck.cov["histories_with_cross_generation_dup"] = sum(1 for h in hs if h.get("dup"))
    ck.cov["model_groups_evaluated"] = len(groups)
    ck.cov["traces_validated_against_impl"] = len(groups) - (len(model_bad) if model_bad else 0)
    ck.cov["known_finding_queries"] = known
    ck.cov["calls_per_statement"] = ncalls
    ck.cov["samples"] = [c["sql"] for h in hs[:3] for c in (h.get("checks") or [])[:2]]
