"""C09 - aggregates served from stored statistics equal aggregates over the rows. See DESIGN.md section 4 C09 and
props/C09/NOTES.md.

  1. audit + build coq/C09, re-check Props.v / Refuted.v.
  2. harness cmd/c09 on the repository's working tree: C02-style histories on a real shard; paired queries
     `select f(x)` (with / without exact-statistics hint, field filter, time bucket; range ends on and around file and
     segment boundaries) vs the plain `select x`, both through the store-side reader the planner builds. DIRECT ORACLE:
     combined partial results == f over the rows of the plain select whenever the statement's preconditions hold.
  3. the Coq model's agg_rows (= build_stats) is evaluated on the same rows and compared with the shard's answers.
"""
import json
import os
import re
import vlib
from vlib import coq_z, coq_list

PID = "C09"
FINDING = "C09-string-firstlast-alias"
FINDING_CT = "C09-firstlast-chunk-time"
FN = {"count": 0, "sum": 1, "min": 2, "max": 3, "first": 4, "last": 5}
STRING_FIELD = 3


def in_signature(c):
    """first()/last() of a string field evaluated on the row path (statement not served by the statistics shortcut)"""
    return c["fn"] in ("first", "last") and c["field"] == STRING_FIELD and (c["hint"] or c["filter"] or c["bucket"] > 0)


def in_signature_ct(c):
    """first()/last() served by the statistics shortcut, and every failing group belongs to a series for which some file
    holds a chunk of >= 2 segments that the range enters after its first row (first) / leaves before its last row (last)"""
    return (c["fn"] in ("first", "last") and c["preagg"] and bool(c.get("fail_groups"))
            and all(g.split("/")[0] in (c.get("sig_chunk_time") or []) for g in c["fail_groups"]))


def main(ck):
    ck.assumptions += [
        "the store-side part of a statement is run as the planner builds it (LogicalPlanBuilder series/measurement plan, "
        "LogicalReader, ChunkReader over shard.CreateCursor); the executor's upper aggregation stages are replaced by the "
        "harness' combination of partial results (sum of counts/sums, min of mins, max of maxes, earliest first, latest last)",
        "mean is checked as sum and count (the planner rewrites mean into sum/count)",
        "max-rows-per-segment = 8 so that series span several segments; values are small integers / k/4 floats (exact sums)",
        "queries group by host (one series per group), so first/last have no cross-series time ties",
        "index visibility, compaction thresholds as in C02",
    ]
    ck.cov["trusted_base"] = ["Coq 8.16.1 kernel + vm_compute (case evaluation, Examples, refutation witness)",
                              "Go harness cmd/c09 + internal/tsdrv, python driver props/C09/run.py",
                              "engine/verif_export_c02.go, engine/verif_export_c09.go (thin wrappers)"]
    ck.coq_audit(["C09"])
    ok = ck.coq_build(["C09/Corr.vo", "C09/Proofs.vo"])
    if ok:
        ck.coq_props(["C09/Props.v", "C09/Refuted.v"])
    binp = ck.go_build("./cmd/c09", "c09")
    if not binp:
        return
    if getattr(ck, "replay", None):
        rp = json.load(open(ck.replay))
        hist = rp.get("history", rp)
        tmp = os.path.join(ck.work, "replay.json")
        json.dump(hist, open(tmp, "w"))
        rc, out = ck.run([binp, "0", tmp], timeout=600)
        n = 1
    else:
        n = 200 if ck.tier == "quick" else 3000
        corpus = os.path.join(ck.verif, "corpus", PID)
        rc, out = ck.run([binp, str(n)], timeout=3000, env={"VERIF_CORPUS": corpus})
        n += len([f for f in os.listdir(corpus) if f.endswith(".case")]) if os.path.isdir(corpus) else 0
    hs = [json.loads(l) for l in out.splitlines() if l.startswith('{"case"')]
    if rc != 0 or len(hs) != n:
        ck.broken.append("harness c09 failed rc=%d histories=%d/%d: %s" % (rc, len(hs), n, out[-600:]))
        if not hs:
            return
    for h in [h for h in hs if h.get("crash")][:3]:
        ck.broken.append("harness c09: history %d aborted: %s" % (h["case"], h["crash"][:300]))

    # ---- model evaluation on every compared group
    groups = []   # (history idx, check idx, group idx, oracle_ok)
    terms = []
    for hi, h in enumerate(hs):
        for ci, c in enumerate(h.get("checks") or []):
            if not c["compared"] or (c.get("fail") or "").endswith("error"):
                continue
            for gi, g in enumerate(c["groups"] or []):
                rows = coq_list(["(%s, %s)" % (coq_z(r["t"]), coq_z(r["v"])) for r in (g["rows"] or [])])
                got = "None" if g["null"] else "(Some %s)" % coq_z(g["v"])
                terms.append("(%s, %s, %s)" % (coq_z(FN[c["fn"]]), rows, got))
                groups.append((hi, ci, gi, g["want_ok"]))
    model_bad = set()
    if ok and terms:
        shard = 1500
        files = []
        for a in range(0, len(terms), shard):
            txt = ("From Coq Require Import ZArith List Bool. From OG Require Import C09.Model C09.Corr.\n"
                   "Import ListNotations. Open Scope Z_scope.\n"
                   "Definition cases : list (Z * list (Z * Z) * option Z) := [\n%s\n].\n"
                   "Definition M := Eval vm_compute in mismatches cases.\nPrint M.\n") % ";\n".join(terms[a:a + shard])
            files.append(("c09cases%d" % (a // shard), txt))
        outs = ck.coq_eval_many(files, timeout=600)
        for k, (rc2, o) in enumerate(outs):
            m = re.search(r"M\s*=\s*(.*?)\s*:\s*list", o, re.S)
            if rc2 != 0 or not m:
                ck.broken.append("C09 model evaluation failed on shard %d: %s" % (k, o[-500:]))
                continue
            for x in re.findall(r"(\d+)(?:%nat)?", m.group(1)):
                model_bad.add(k * shard + int(x))
    elif not ok:
        model_bad = None

    # ---- verdicts
    finding = ck.match_finding(FINDING)
    finding_ct = ck.match_finding(FINDING_CT)
    known_ct, eligible_ct = 0, 0
    viol, known, checks, compared, skipped = 0, 0, 0, 0, 0
    modes = {}
    eligible_sig = 0
    for hi, h in enumerate(hs):
        for c in h.get("checks") or []:
            checks += 1
            compared += bool(c["compared"])
            skipped += bool(c.get("skipped"))
            mode = "hint" if c["hint"] else "filter" if c["filter"] else "bucket" if c["bucket"] else "shortcut" if c["preagg"] else "rows"
            modes["%s/%s" % (c["fn"], mode)] = modes.get("%s/%s" % (c["fn"], mode), 0) + 1
            eligible_sig += in_signature(c)
            eligible_ct += bool(c["fn"] in ("first", "last") and c["preagg"] and c.get("sig_chunk_time"))
            if not c.get("fail"):
                continue
            if in_signature_ct(c) and finding_ct is not None:
                known_ct += 1
                ck.known_finding(FINDING_CT, "first()/last() served from stored statistics takes the time of the whole chunk instead of the "
                                 "segment's, so a value of another container inside the range loses (or wins) wrongly")
                continue
            if in_signature(c) and finding is not None and not c["fail"].endswith("error"):
                known += 1
                ck.known_finding(FINDING, "first()/last() of a string field on the row path (hint / field filter / time bucket) returns a "
                                 "string other than the one the plain select shows at that time (aliased buffer)")
            else:
                viol += 1
                if viol <= 3:
                    slim = {k: h[k] for k in ("case", "nser", "nodup_mode", "ops")}
                    ck.violation({"kind": "direct-oracle", "what": c["fail"], "check": c, "history": slim, "dup_history": h["dup"]})
    if model_bad is not None:
        for idx, (hi, ci, gi, want_ok) in enumerate(groups):
            bad = idx in model_bad
            if bad == want_ok:  # model and Go oracle disagree about this group
                c = hs[hi]["checks"][ci]
                ck.broken.append("correspondence C09: model agg_rows and the harness oracle disagree on history %d query `%s` group %s"
                                 % (hs[hi]["case"], c["sql"], c["groups"][gi]["group"]))
                ck.nofail_detail = {"kind": "correspondence", "check": c, "group": c["groups"][gi]}
                break
    if finding_ct is not None and known_ct == 0 and eligible_ct > 0:
        ck.notes.append("open finding %s did not reproduce on %d eligible queries: stale (tree looks repaired)" % (FINDING_CT, eligible_ct))
    if finding is not None and known == 0 and eligible_sig > 0:
        ck.notes.append("open finding %s did not reproduce on %d eligible queries: stale (tree looks repaired)" % (FINDING, eligible_sig))

    # ---- coverage
    nontriv = set()
    segs = {}
    for h in hs:
        segs[str(h.get("max_segments", 0))] = segs.get(str(h.get("max_segments", 0)), 0) + 1
        for c in h.get("checks") or []:
            if c["compared"] and any(len(g["rows"] or []) >= 2 for g in c["groups"] or []) and (h.get("files", 0) >= 2 or h.get("max_segments", 0) >= 2):
                nontriv.add(c["sql"] + "|" + str(h["case"]))
    ck.cov["evaluations"] = compared
    ck.cov["histories"] = len(hs)
    ck.cov["checks_total"] = checks
    ck.cov["checks_skipped_by_precondition"] = skipped
    ck.cov["distinct_nontrivial"] = len(nontriv)
    ck.cov["rule"] = ("evaluations = paired queries whose precondition holds (hint | filter | bucket | history without cross-generation "
                      "duplicate) and that were compared with the rows of the plain select; non-trivial = compared query with a group of "
                      ">= 2 rows on a shard holding >= 2 files or a series with >= 2 segments; distinct = (history, statement)")
    ck.cov["query_histogram(fn/path)"] = modes
    ck.cov["max_segments_histogram"] = segs
    ck.cov["histories_with_cross_generation_dup"] = sum(1 for h in hs if h.get("dup"))
    ck.cov["model_groups_evaluated"] = len(groups)
    ck.cov["traces_validated_against_impl"] = len(groups) - (len(model_bad) if model_bad else 0)
    ck.cov["known_finding_queries"] = {FINDING: known, FINDING_CT: known_ct}
    ck.cov["samples"] = [c["sql"] for h in hs[:3] for c in (h.get("checks") or [])[:2]]
