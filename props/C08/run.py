"""C08 - query answers follow the language and ignore chunking and parallelism. See DESIGN.md section 4 C08 and NOTES.md.

PARTIAL claim: the logic core (reference semantics L1, chunk-stream operators L2, their invariance theorems) is proved in
Coq; the tie to the repository is a black-box correspondence on ts-server (metamorphic matrix + reference evaluator whose
answers are recomputed by the Coq L1 model on every run)."""
import glob
import json
import os
import re

import vlib
from vlib import coq_z, coq_bool, coq_list

PID = "C08"
HERE = os.path.dirname(os.path.abspath(__file__))

FN_COQ = {"count": "FCount", "sum": "FSum", "mean": "FMean", "min": "FMin", "max": "FMax", "first": "FFirst", "last": "FLast"}
CMP_COQ = {"lt": "CLt", "le": "CLe", "gt": "CGt", "ge": "CGe", "eq": "CEq", "ne": "CNe"}


def setup():
    ck = vlib.Check(PID)
    ok = ck.go_build_repo("./app/ts-server", "ts-server") is not None
    import shutil
    shutil.rmtree(ck.work, ignore_errors=True)
    return 0 if ok else 1


# ------------------------------------------------------------------------------------------------
# rendering of harness values as Coq terms (coq/C08/Model.v)

def opt_z(v):
    return "None" if v is None else "(Some %s)" % coq_z(v)


def pred_coq(p):
    if p is None or p["op"] == "true":
        return "PTrue"
    if p["op"] in ("and", "or"):
        return "(%s %s %s)" % ("PAnd" if p["op"] == "and" else "POr", pred_coq(p["a"]), pred_coq(p["b"]))
    if p["op"] == "tageq":
        return "(PTagEq %d %s)" % (p.get("k", 0), coq_z(p.get("v", 0)))
    if p["op"] == "tagne":
        return "(PTagNe %d %s)" % (p.get("k", 0), coq_z(p.get("v", 0)))
    return "(PField %d %s %s)" % (p.get("k", 0), CMP_COQ[p["cmp"]], coq_z(p.get("v", 0)))


def fill_coq(q):
    f = q.get("fill", "none")
    if not q.get("interval"):
        return "FillNone"
    if f == "num":
        return "(FillNum %s)" % coq_z(q.get("filln", 0))
    return {"none": "FillNone", "null": "FillNull", "prev": "FillPrev"}[f]


def agg_scale(a, kinds):
    return 8 if (kinds[a["f"]] == "float" and a["fn"] != "count") else 1


KINDS = ["float", "float", "int", "bool", "string"]


def query_coq(q, desc):
    if q["kind"] == "plain":
        sel = "(SelPlain %s)" % coq_list(["%d%%nat" % f for f in q["cols"]])
    else:
        sel = "(SelAgg %s)" % coq_list(["(%s, %d%%nat, %s)" % (FN_COQ[a["fn"]], a["f"], coq_z(agg_scale(a, KINDS))) for a in q["aggs"]])
    return ("(mkQ %s %s %s %s %s %s %s %s %s %s)" % (
        sel, opt_z(q["tmin"] if q["has_tmin"] else None), opt_z(q["tmax"] if q["has_tmax"] else None),
        pred_coq(q.get("pred")), coq_list(["%d%%nat" % g for g in q.get("group") or []]),
        coq_z(q.get("interval", 0)), fill_coq(q), coq_z(q.get("limit", 0)), coq_z(q.get("offset", 0)), coq_bool(desc)))


def cell_coq(c):
    if c.get("null"):
        return "CNull"
    if c.get("rat"):
        return "(CRat %s %s)" % (coq_z(c["n"]), coq_z(c["d"]))
    return "(CVal %s)" % coq_z(c["n"])


def answer_coq(a):
    return coq_list(["(%s, %s)" % (coq_list([coq_z(k) for k in s["key"]]),
                                   coq_list(["(%s, %s)" % (coq_z(r["t"]), coq_list([cell_coq(c) for c in r["c"]])) for r in s["rows"]]))
                     for s in (a or [])])


def dataset_coq(ds):
    ser = []
    for s in ds["series"]:
        rows = coq_list(["(%s, %s)" % (coq_z(r["t"]), coq_list([opt_z(v) for v in r["v"]])) for r in s["rows"]])
        ser.append("(%s, %s)" % (coq_list([coq_z(t) for t in s["tags"]]), rows))
    return coq_list(ser)


# ------------------------------------------------------------------------------------------------
# known-finding signatures (decidable predicates over the failing input = data set features + query + configuration)

def n_cols(q):
    return len(q["aggs"]) if q["kind"] == "agg" else len(q["cols"])


def has_pred(p):
    return p is not None and p.get("op") != "true"


def has_field_pred(p):
    if p is None:
        return False
    if p.get("op") in ("and", "or"):
        return has_field_pred(p.get("a")) or has_field_pred(p.get("b"))
    return p.get("op") == "field"


def parse_indices(o):
    """indices printed by `Print M.` (M : list nat); None when the output cannot be read completely (fail closed)"""
    m = re.search(r"M\s*=\s*(.*?)\s*:\s*list nat", o, re.S)
    if not m:
        return None
    body = m.group(1)
    idx = [int(x) for x in re.findall(r"(\d+)(?:%nat)?", body)]
    rest = re.sub(r"\d+(?:%nat)?", "", body)
    if re.sub(r"[\[\];\s]", "", rest):
        return None     # something in the list that is not an index
    return idx


def eval_with_canary(ck, files, what):
    """files: (name, text, n) where the LAST of the n cases is a canary that must be reported as a mismatch.
    Returns per file the list of real mismatch indices, or None (and an entry in ck.broken) when the evaluation cannot be trusted."""
    res = []
    for (name, _, n), (rc, o) in zip(files, ck.coq_eval_many([(f, t) for f, t, _ in files])):
        idx = parse_indices(o) if rc == 0 else None
        if idx is None:
            ck.broken.append("%s: model evaluation failed or unreadable (%s): %s" % (what, name, o[-500:]))
            res.append(None)
            continue
        if any(i >= n for i in idx) or (n - 1) not in idx:
            ck.broken.append("%s: the canary case of %s was not reported by the model evaluation (indices %s of %d cases) - "
                             "the comparison is blind" % (what, name, idx[:10], n))
            res.append(None)
            continue
        res.append([i for i in idx if i != n - 1])
    return res


PRE = {}   # outputs of the in-process harnesses (c08op, c08f, c08s), produced by a side thread while the black box runs


def side_harnesses(ck, bins):
    """run the three in-process harnesses one after the other (they do not share anything with the server run)"""
    quick = ck.tier == "quick"
    try:
        if bins.get("op"):
            PRE["op"] = ck.run([bins["op"], str(40 if quick else 400)], timeout=3000, env={"HOME": ck.work})
        if bins.get("fault"):
            wd = os.path.join(ck.work, "fault")
            os.makedirs(wd, exist_ok=True)
            PRE["fault"] = ck.run([bins["fault"], wd, str(25 if quick else 120)], timeout=900, env={"HOME": ck.work})
        if bins.get("store"):
            wd = os.path.join(ck.work, "store")
            os.makedirs(wd, exist_ok=True)
            PRE["store"] = ck.run([bins["store"], wd, str(2 if quick else 10)], timeout=1800, env={"HOME": ck.work})
    except Exception as e:   # never silent: the stages report a missing output as broken
        PRE["error"] = repr(e)

_FRAG = None


def finding_open(ck, fid):
    """is the finding open? central known_findings.json decides; an id it does not know yet (fragment not merged by
    tools/merge.py so far) is looked up in the read-only fragment props/C08/findings.json"""
    global _FRAG
    if _FRAG is None:
        try:
            _FRAG = {x["id"]: x for x in json.load(open(os.path.join(HERE, "findings.json")))["findings"]}
        except (OSError, ValueError):
            _FRAG = {}
    if any(x["id"] == fid for x in ck.findings):
        # the stricter of the two records: a finding the fragment already lists as fixed (repair committed to /repo, central
        # file not re-merged yet) is not open any more
        return ck.match_finding(fid) is not None and _FRAG.get(fid, {}).get("status", "open") == "open"
    return _FRAG.get(fid, {}).get("status") == "open"


def store_case_coq(c, rows, corrupt=False):
    """Coq term of one store-side case: logical contents, statement, the partial rows the real reader emitted"""
    st = c["stmt"]
    nser = c["nser"]
    ser = []
    for sidx in range(nser):
        rr = []
        for r in rows:
            if r["s"] != sidx:
                continue
            f = {x["f"]: x["v"] for x in (r.get("f") or [])}
            rr.append("(%s, [%s; %s])" % (coq_z(r["t"]), opt_z(f.get(0)), opt_z(f.get(1))))
        ser.append("([%s; %s], %s)" % (coq_z(sidx + 1), coq_z(sidx % 2 + 1), coq_list(rr)))
    aggs = coq_list(["(%s, %d%%nat, 1%%Z)" % (OPFN[k["fn"]], k["f"]) for k in st["calls"]])
    pred = "(PField 0 CGe %s)" % coq_z(st["filt_ge"]) if st.get("has_filt") else "PTrue"
    group = {"": "[]", "host": "[0%nat]", "zone": "[1%nat]"}[st.get("group", "")]
    q = "(mkQ (SelAgg %s) %s %s %s %s %s FillNone 0 0 false)" % (
        aggs, opt_z(st["tmin"] if st.get("has_range") else None), opt_z(st["tmax"] if st.get("has_range") else None),
        pred, group, coq_z(st.get("interval", 0)))
    by_key = {}
    for p in c.get("parts") or []:
        key = {"": (), "host": (p["host"] + 1,), "zone": (p["zone"] + 1,)}[st.get("group", "")]
        cells = coq_list(["None" if x.get("null") else "(Some (%s, %s))" % (coq_z(x["v"]), coq_z(x["t"])) for x in p["c"]])
        by_key.setdefault(key, []).append("(%s, %s)" % (coq_z(p["t"]), cells))
    if corrupt:
        by_key[(424242,)] = ["(0, %s)" % coq_list(["(Some (1, 0))"] * len(st["calls"]))]
    parts = coq_list(["(%s, %s)" % (coq_list([coq_z(k) for k in key]), coq_list(rr)) for key, rr in sorted(by_key.items())])
    return "(%s, %s, %s)" % (coq_list(ser), q, parts)


def store_stage(ck, coq_ok):
    """store-side operator level (harness cmd/c08s): the real aggregate cursors on every piece cut; the emitted partial rows are
    folded by the Coq L2 combination of partial aggregates and compared with the reference semantics"""
    if "store" not in PRE:
        return {}
    rc, out = PRE["store"]
    cases = [json.loads(l)["storecase"] for l in out.splitlines() if l.startswith('{"storecase"')]
    if rc != 0 or not cases:
        ck.broken.append("harness c08s failed rc=%d cases=%d: %s" % (rc, len(cases), out[-600:]))
        return {}
    rows_of = {}
    for c in cases:
        if c.get("rows"):
            rows_of[c["ds"]] = c["rows"]
    bad = sorted([c for c in cases if c.get("fail")], key=lambda c: (len(rows_of.get(c["ds"], [])), c["c2"], c["c1"], -c["chunk"]))
    for c in bad[:1]:
        d = dict(c)
        d["rows"] = rows_of.get(c["ds"])
        ck.violation({"kind": "direct-oracle-store", "what": "real store-side reader: statement %r, rows written as file 1 = [0:%d], file 2 = [%d:%d], "
                      "memtable = the rest, batch size %d: the emitted partial aggregates do not fold to the documented aggregates (%s; "
                      "%d failing cases of %d)" % (c["stmt"]["sql"], c["c1"], c["c1"], c["c2"], c["chunk"], c.get("err") or c["fail"], len(bad), len(cases)),
                      "storecase": d}, tag="store")
    cov = {"cases": len(cases), "failing": len(bad), "layouts": len({(c["ds"], c["c1"], c["c2"]) for c in cases}),
           "rule": "case = (data set, cut of its write sequence into file 1 / file 2 / memtable at every pair of positions, statement, batch size 1024/1/2/3)"}
    if not coq_ok:
        return cov
    seen, items = set(), []
    good = [c for c in cases if not c.get("fail")]
    for c in good:
        key = json.dumps([c["ds"], c["stmt"], c["parts"]], sort_keys=True)
        if key in seen:
            continue
        seen.add(key)
        items.append(store_case_coq(c, rows_of[c["ds"]]))
    files = []
    if good:
        canary = store_case_coq(good[0], rows_of[good[0]["ds"]], corrupt=True)
        for i in range(0, len(items), 150):
            part = items[i:i + 150] + [canary]
            txt = ("From Coq Require Import ZArith List Bool. From OG Require Import C08.Model C08.Pipe C08.Corr.\n"
                   "Import ListNotations. Open Scope Z_scope.\n"
                   "Definition cases : list store_case := [\n%s\n].\n"
                   "Definition M := Eval vm_compute in store_mismatches cases.\nPrint M.\n") % ";\n".join(part)
            files.append(("store_%d" % i, txt, len(part)))
    mism = 0
    for r in eval_with_canary(ck, files, "store-side operator level"):
        if r is not None:
            mism += len(r)
    if mism:
        ck.broken.append("correspondence C08 (store side): the Coq fold of the reader's partial rows differs from the reference semantics on %d "
                         "cases that the Go twin accepted" % mism)
    cov["distinct_recomputed_by_coq"] = len(items)
    cov["coq_mismatches"] = mism
    return cov


def fault_stage(ck):
    """in-process fault stage (harness cmd/c08f): under ONE injected storage read error a query must fail or be correct"""
    if "fault" not in PRE:
        return {}
    rc, out = PRE["fault"]
    cases = [json.loads(l)["faultcase"] for l in out.splitlines() if l.startswith('{"faultcase"')]
    done = [json.loads(l)["faultdone"] for l in out.splitlines() if l.startswith('{"faultdone"')]
    if rc != 0 or not cases or not done:
        ck.broken.append("harness c08f failed rc=%d faulted runs=%d queries=%d: %s" % (rc, len(cases), len(done), out[-600:]))
        return {}
    known, bad = 0, []
    for c in cases:
        if not c.get("silent_wrong"):
            continue
        is_agg = re.match(r"SELECT \w+\(", c["sql"]) is not None
        # signature of C08-read-error-swallowed: the failed read fetched a chunk-meta / meta-index block, or the statement
        # is an aggregate (served by the aggregate tag-set cursors / the statistics readers)
        if (c.get("read") == "meta" or is_agg) and finding_open(ck, "C08-read-error-swallowed"):
            known += 1
        else:
            bad.append(c)
    if known:
        ck.known_finding("C08-read-error-swallowed", FINDING_TEXT["C08-read-error-swallowed"])
    for c in sorted(bad, key=lambda c: (c["want_rows"], c["k"]))[:1]:
        ck.violation({"kind": "direct-oracle-fault", "what": "under one injected read error (read #%d of the statement, %s block of %s) the "
                      "statement reported success but returned %d of %d rows (%d such runs)" % (
                          c["k"], c.get("read"), c["file"], c["rows"], c["want_rows"], len(bad)), "faultcase": c}, tag="fault")
    return {"faulted_runs": len(cases), "queries": len(done), "errors": sum(1 for c in cases if c.get("err")),
            "correct_without_error": sum(1 for c in cases if not c.get("err") and c["same"]),
            "silent_wrong_known": known, "silent_wrong_unexplained": len(bad),
            "rule": "one run = one statement with the k-th read of a data file failing, k = 0.. until the statement no longer reaches it"}


def explain(case, f):
    """ids of the known findings whose signature the failing (query, configuration) satisfies"""
    q, ft, cf = case["query"], case["features"], f["config"]
    ids = []
    if f["kind"] == "error":
        return ids
    iv = q["kind"] == "agg" and q.get("interval", 0) > 0
    fill = q.get("fill", "none") if iv else "none"
    desc = bool(cf.get("desc")) or f["kind"] == "desc"
    inner = cf.get("inner", 0)
    if iv and fill != "none" and (desc or fill == "prev") and inner > 0 and ft["filled_rows"] > 2 * inner:
        ids.append("C08-fill-split-path")
    if fill == "prev" and n_cols(q) >= 2 and ft["partial_row"]:
        ids.append("C08-fill-previous-multicolumn")
    if fill == "prev" and desc and ft["empty_bucket"]:
        ids.append("C08-fill-previous-desc")
    # first()/last() under ORDER BY time DESC: positional readers / reducers of the store (C09-desc-firstlast-shortcut and
    # C09-desc-firstlast-rowpath). A statement without GROUP BY, time bucket, predicate and time bound is executed
    # ascending by the planner and is not affected.
    bare = not q.get("group") and not iv and not has_pred(q.get("pred")) and not q.get("has_tmin") and not q.get("has_tmax")
    if q["kind"] == "agg" and desc and any(a["fn"] in ("first", "last") for a in q["aggs"]) and not bare:
        ids.append("C08-desc-first-last")
    if q["kind"] == "agg" and desc and ft.get("selector_tie"):
        ids.append("C08-desc-selector-tie")
    if q["kind"] == "plain" and ft["has_tie"] and f.get("tie_only"):
        ids.append("C08-tie-order")
    small = 0 < inner < 1024
    # empty piece of a series handed to the aggregate cursor (fileLoopCursor.ReadAggDataNormal): needs a small batch size
    # and a stored row without a value for an aggregated field
    if iv and small and ft.get("null_agg_field"):
        ids.append("C08-time-window-agg-store")
    # descending scan over overlapping sources: the 'last file' flag of fileLoopCursor (C02-desc-filecursor-lastfile)
    if q["kind"] == "agg" and desc and ft["layout"] == "ooo" and (iv or has_field_pred(q.get("pred"))):
        ids.append("C08-desc-agg-overlapping-files")
    if (q["kind"] == "agg" and n_cols(q) >= 2 and any(a["fn"] in ("first", "last") for a in q["aggs"])
            and len({a["f"] for a in q["aggs"]}) >= 2 and ft.get("multi_series_group") and cf.get("phase") == "mem"):
        ids.append("C08-multicolumn-first-last-across-series")
    if iv and fill == "null" and not q.get("group") and ft.get("count_null_in_row") and not ft["empty_bucket"]:
        ids.append("C08-fill-null-count-fastpath")
    if (q.get("star") and q.get("limit", 0) > 0 and ft.get("nseries", 0) > q.get("limit", 0) + q.get("offset", 0)
            and ((not desc and q.get("has_tmin") and ft.get("point_before_tmin"))
                 or (desc and q.get("has_tmax") and ft.get("point_after_tmax")))):
        # sharpened by Prune.v (C08_limit_prune_current_sound_exact_keys): today's pruning is right when every series' key is
        # the time of its first returned row, i.e. unless some series holds a stored point outside the range on the side the
        # scan starts from
        ids.append("C08-limit-prune-time-range")
    if ft.get("unknown_bool_eq_false"):
        ids.append("C08-unknown-bool-field-eq-false")
    if fill == "prev" and ft.get("single_row_group"):
        ids.append("C08-fill-previous-single-row-group")   # last: a failure is attributed to it only when nothing else explains it
    return ids


def op_partial(st):
    return any(any(v is None for v in r["c"]) and any(v is not None for v in r["c"]) for g in st["groups"] for r in g["rows"])


def explain_op(c):
    """known-finding signatures at operator level (real FillTransform fed with cut streams)"""
    st, ids = c["stream"], []
    if c["fast_path"] and any(k == "count" and any(r["c"][i] is None for g in st["groups"] for r in g["rows"])
                              for i, k in enumerate(st["cols"])):
        ids.append("C08-fill-null-count-fastpath")
    if c["split_path"] and (st["desc"] or st["fill"] == "prev"):
        ids.append("C08-fill-split-path")
    if st["fill"] == "prev" and len(st["cols"]) >= 2 and op_partial(st):
        ids.append("C08-fill-previous-multicolumn")
    return ids


def op_cells(cells):
    return coq_list(["CNull" if v is None else "(CVal %s)" % coq_z(v) for v in cells])


def op_case_coq(st, cut, g, want):
    """Coq term for one group of an operator-level case: the group's rows in the chunks induced by the global cut"""
    nb, desc = st["nb"], st["desc"]
    i, first, last = (-10, (nb - 1) * 10, 0) if desc else (10, 0, (nb - 1) * 10)
    mode = {"null": "FillNull", "prev": "FillPrev"}.get(st["fill"]) or "(FillNum %s)" % coq_z(st["filln"])
    aggs = coq_list(["(%s, %d%%nat, 1%%Z)" % ("FCount" if k == "count" else "FSum", j) for j, k in enumerate(st["cols"])])
    # positions of this group's rows in the flattened stream
    pos, off = [], 0
    for gg in st["groups"]:
        if gg is g:
            pos = list(range(off, off + len(gg["rows"])))
        off += len(gg["rows"])
    chunks, start = [], 0
    for n in cut:
        part = [g["rows"][p - pos[0]] for p in pos if start <= p < start + n]
        start += n
        if part:
            chunks.append(coq_list(["(%s, %s)" % (coq_z(r["t"]), op_cells(r["c"])) for r in part]))
    wrows = coq_list(["(%s, %s)" % (coq_z(r["t"]), op_cells(r["c"])) for r in want["rows"]])
    return "(%s, %s, %s, %s, %s, %s, %s)" % (coq_z(i), coq_z(first), coq_z(last), mode, aggs, coq_list(chunks), wrows)


# ------------------------------------------------------------------------------------------------
# operator level, aggregation / limit / merge operators (harness cmd/c08op agg.go limit.go merge.go)

OPFN = {"count": "FCount", "sum": "FSum", "min": "FMin", "max": "FMax", "first": "FFirst", "last": "FLast"}


def coq_cells(cells):
    return coq_list(["CNull" if v is None else "(CVal %s)" % coq_z(v) for v in cells])


def cut_chunks(items, cut):
    chunks, pos = [], 0
    for n in cut:
        if pos >= len(items):
            break
        chunks.append(items[pos:pos + n])
        pos += n
    return chunks


def agg_key(st, g, t):
    return g * 1000 + (t // 10 if st["has_iv"] else 0)


def aggcase_coq(c):
    st = c["stream"]
    aggs = coq_list(["(%s, %d%%nat, 1%%Z)" % (OPFN[k["fn"]], k["col"]) for k in st["calls"]])
    rows = ["(%s, (%s, %s))" % (coq_z(agg_key(st, r["g"], r["t"])), coq_z(r["t"]),
                                coq_list([opt_z(v) for v in r["v"]])) for r in st["rows"]]
    chunks = coq_list([coq_list(ch) for ch in cut_chunks(rows, c["cut"])])
    exact = len(st["calls"]) == 1 and st["calls"][0]["fn"] in ("min", "max", "first", "last") and not st["desc"]
    want = coq_list(["(%s, %s, %s)" % (coq_z(w["g"] * 1000 + w["w"]), opt_z(w["t"] if exact else None), coq_cells(w["c"]))
                     for w in c["want"]])
    return "(%s, %s, %s)" % (aggs, chunks, want)


def limitcase_coq(c, canary=False):
    st = c["stream"]
    ids = [coq_z(i) for i in range(len(st["rows"]))]
    chunks = coq_list([coq_list(ch) for ch in cut_chunks(ids, c["cut"])])
    lo = min(st["offset"], len(ids))
    hi = min(st["offset"] + st["limit"], len(ids))
    return "(%d%%nat, %d%%nat, %s, %s)" % (st["offset"], st["limit"], chunks, coq_list(ids[lo:hi] + (["999"] if canary else [])))


def mrow_arow(r, key):
    return "(%s, %s)" % (coq_z(key), coq_cells(r["c"]))


def mergecase_coq(c):
    """Coq term of a merge case. Sorted merge: ascending cases go to merge_k, descending ones unchanged to merge_kd."""
    st = c["stream"]
    desc = st["desc"]
    if st["kind"] == "sortappend":
        # SortAppendTransform orders by (group, time, measurement): the measurement index is the first cell of the model row
        enc = lambda r: "(%s, %s)" % (coq_z(r["g"] * 100000 + r["t"]), coq_cells([r.get("in", 0)] + list(r["c"])))
        ins = [[enc(dict(r, **{"in": k})) for r in i] for k, i in enumerate(st["inputs"])]
        return "(%s, %s)" % (coq_list([coq_list(i) for i in ins]), coq_list([enc(r) for r in c["got"]]))
    if st["kind"] == "sortmerge":
        enc = lambda r: mrow_arow(r, r["g"] * 100000 + r["t"])
        ins = [[enc(r) for r in i] for i in st["inputs"]]
        got = [enc(r) for r in c["got"]]
        return "(%s, %s)" % (coq_list([coq_list(i) for i in ins]), coq_list(got))
    hasiv = st["has_iv"]
    key = lambda r: (r["g"] * 1000 + (r["t"] // 10 if hasiv else 0)) * (-1 if desc else 1)
    enc = lambda r: "(%s, (%s, %s))" % (coq_z(key(r)), coq_z(r["t"]), coq_cells(r["c"]))
    return "(%s, %s)" % (coq_list([coq_list([enc(r) for r in i]) for i in st["inputs"]]), coq_list([enc(r) for r in c["got"]]))


def op_size(c):
    st = c["stream"]
    n = len(st["rows"]) if "rows" in st else sum(len(i) for i in st["inputs"])
    cuts = c.get("cut") or [x for cc in c.get("cuts", []) for x in cc]
    return (n, len(cuts), c["chunk_size"])


def op_more(ck, out, coq_ok):
    """aggregation, limit and merge operators: direct oracle verdicts + recomputation by the Coq L2 operators"""
    # executor contract under a failing processor (exec.go): error-or-correct
    execs = [json.loads(l)["execcase"] for l in out.splitlines() if l.startswith('{"execcase"')]
    if not execs or not any(c["mode"] == "panic" for c in execs) or any(c["mode"] == "none" and (c.get("err") or c["got_rows"] != c["want_rows"]) for c in execs):
        ck.broken.append("harness c08op: executor probe missing or its fault-free control runs failed: %s" % execs[:2])
    silent = [c for c in execs if c.get("silent_short")]
    sil_known = [c for c in silent if c["mode"] == "panic" and finding_open(ck, "C08-executor-panic-swallowed")]
    if sil_known:
        ck.known_finding("C08-executor-panic-swallowed", FINDING_TEXT["C08-executor-panic-swallowed"])
    for c in [c for c in silent if c not in sil_known][:1]:
        ck.violation({"kind": "direct-oracle-executor", "what": "PipelineExecutor.Execute returned no error although a stage failed (%s) and the sink "
                      "received %d of %d rows" % (c["mode"], c["got_rows"], c["want_rows"]), "execcase": c}, tag="op-exec")
    groups = {"aggcase": [], "limitcase": [], "mergecase": []}
    for l in out.splitlines():
        for k in groups:
            if l.startswith('{"%s"' % k):
                groups[k].append(json.loads(l)[k])
    names = {"aggcase": "StreamAggregateTransform", "limitcase": "LimitTransform", "mergecase": "MergeTransform/SortedMergeTransform/SortAppendTransform"}
    cov = {}
    # the bucket function itself: real ProcessorOptions.Window on generated (t, interval, offset), times before the epoch and
    # the MinTime / MaxTime neighbourhood included
    wins = [json.loads(l)["windowcase"] for l in out.splitlines() if l.startswith('{"windowcase"')]
    if not wins or not any(c["t"] < 0 for c in wins):
        ck.broken.append("harness c08op produced no windowcase lines (or none before the epoch)")
    wbad = sorted([c for c in wins if c.get("fail")], key=lambda c: (abs(c["t"]), c["d"]))
    for c in wbad[:1]:
        ck.violation({"kind": "direct-oracle-window", "what": "ProcessorOptions.Window(%d) with interval %d offset %d = [%d, %d): %s (%d failing of %d)" % (
            c["t"], c["d"], c["off"], c["start"], c["end"], c["fail"], len(wbad), len(wins)), "windowcase": c}, tag="op-window")
    cov["windowcase"] = {"cases": len(wins), "failing": len(wbad), "before_epoch": sum(1 for c in wins if c["t"] < 0)}
    for k, cases in groups.items():
        if not cases:
            ck.broken.append("harness c08op produced no %s lines" % k)
            continue
        bad = sorted([c for c in cases if c.get("fail")], key=op_size)
        for c in bad[:1]:
            ck.violation({"kind": "direct-oracle-operator", "operator": names[k],
                          "what": "real %s: oracle %s failed on this cut of a small stream (%d failing cases of %d; the smallest is shown)" % (
                              names[k], c["fail"], len(bad), len(cases)), k: c}, tag="op-" + k)
        cov[k] = {"cases": len(cases), "failing": len(bad)}
    if not coq_ok:
        return cov
    files = []

    def shard(name, typ, fn, items, canary):
        for i in range(0, len(items), 300):
            part = items[i:i + 300] + [canary]
            txt = ("From Coq Require Import ZArith List Bool. From OG Require Import C08.Model C08.Pipe C08.Corr.\n"
                   "Import ListNotations. Open Scope Z_scope.\n"
                   "Definition cases : list %s := [\n%s\n].\n"
                   "Definition M := Eval vm_compute in %s cases.\nPrint M.\n") % (typ, ";\n".join(part), fn)
            files.append(("%s_%d" % (name, i), txt, len(part), name))

    def uniq(cases, keyf):
        seen, res = set(), []
        for c in cases:
            key = json.dumps([c["stream"], keyf(c)], sort_keys=True)
            if key not in seen:
                seen.add(key)
                res.append(c)
        return res

    def corrupt(c, field, extra):
        d = dict(c)
        d[field] = list(c[field] or []) + [extra]
        return d

    ua = uniq(groups["aggcase"], lambda c: c["cut"])
    ul = uniq(groups["limitcase"], lambda c: c["cut"])
    okm = [c for c in groups["mergecase"] if not c.get("fail")]
    sm = [c for c in okm if c["stream"]["kind"] in ("sortmerge", "sortappend")]
    km = [c for c in okm if c["stream"]["kind"] == "merge"]
    # canaries: a copy of the first case with one more row in the expected / observed output - must be reported
    if ua:
        shard("aggop", "aggop_case", "aggop_mismatches", [aggcase_coq(c) for c in ua],
              aggcase_coq(corrupt(ua[0], "want", {"g": 9, "w": 9, "t": 0, "c": [None] * len(ua[0]["stream"]["calls"])})))
    if ul:
        shard("limitop", "limitop_case", "limitop_mismatches", [limitcase_coq(c) for c in ul], limitcase_coq(ul[0], canary=True))
    for order, fn in ((False, "sortmerge_mismatches"), (True, "sortmerge_desc_mismatches")):
        smo = [c for c in sm if bool(c["stream"]["desc"]) == order]
        if smo:
            shard("sortmerge_desc" if order else "sortmerge", "sortmerge_case", fn, [mergecase_coq(c) for c in smo],
                  mergecase_coq(corrupt(smo[0], "got", {"g": 7, "t": 77, "c": [None] * len(smo[0]["stream"]["cols"])})))
    if km:
        shard("kmerge", "kmerge_case", "kmerge_mismatches", [mergecase_coq(c) for c in km],
              mergecase_coq(corrupt(km[0], "got", {"g": 7, "t": 77, "c": [None] * len(km[0]["stream"]["cols"])})))
    wok = [c for c in wins if not c.get("fail")]
    if wok:
        wenc = lambda c, d=0: "(%s, %s, %s, %s, %s)" % (coq_z(c["t"]), coq_z(c["d"]), coq_z(c["off"]), coq_z(c["start"] + d), coq_z(c["end"]))
        shard("window", "window_case", "window_mismatches", [wenc(c) for c in wok], wenc(wok[0], 1))
    mism = {}
    for (fname, _, _, name), r in zip(files, eval_with_canary(ck, [(f, t, n) for f, t, n, _ in files], "operator level")):
        if r is not None:
            mism[name] = mism.get(name, 0) + len(r)
    for name, n in sorted(mism.items()):
        if n:
            ck.broken.append("correspondence C08 (operator level, %s): the Coq L2 operator and the harness disagree on %d cases" % (name, n))
    cov["recomputed_by_coq"] = {"aggop": len(ua), "limitop": len(ul), "merge": len(okm), "window": len(wok)}
    cov["coq_mismatches"] = mism
    return cov


PRIORITY = ["C08-unknown-bool-field-eq-false", "C08-fill-previous-desc", "C08-desc-selector-tie", "C08-tie-order", "C08-limit-prune-time-range", "C08-fill-split-path",
            "C08-desc-agg-overlapping-files", "C08-time-window-agg-store", "C08-desc-first-last", "C08-multicolumn-first-last-across-series",
            "C08-fill-previous-multicolumn", "C08-fill-null-count-fastpath", "C08-fill-previous-single-row-group"]

FINDING_TEXT = {
    "C08-fill-split-path": "GROUP BY time() with fill(): answer depends on inner_chunk_size once the filled rows exceed 2x the chunk size "
                           "(FillTransform split path; descending loses data, fill(previous) leaks across groups)",
    "C08-fill-previous-multicolumn": "fill(previous) with several aggregate columns and a partially null bucket: answer differs from the "
                                     "per-column previous value and changes with inner_chunk_size",
    "C08-fill-previous-single-row-group": "fill(previous): a group with a single data row that is not the first group of its chunk is "
                                          "continued with the last values of the preceding group",
    "C08-fill-previous-desc": "ORDER BY time DESC with fill(previous) and an empty bucket: filled in iteration order, not the ascending answer reversed",
    "C08-desc-first-last": "first()/last() in a descending aggregate query return a different point than in the ascending query",
    "C08-desc-selector-tie": "single min()/max() without time(): when the extreme value occurs at several timestamps a descending "
                             "query reports the latest of them, the ascending query the earliest",
    "C08-fill-null-count-fastpath": "fill(null), GROUP BY time only, every bucket present: count() of a bucket without values for that column is "
                                    "null when the answer fits one chunk (fast path returns the chunk unfilled) and 0 otherwise",
    "C08-limit-prune-time-range": "SELECT * .. WHERE time >= t LIMIT n over more than n+offset series: series are pruned by the minimum time of "
                                  "their file chunk, not clipped to t, so the series holding the first rows can be discarded",
    "C08-tie-order": "plain selection: order of rows with equal timestamps from different series changes with inner_chunk_size / limit",
    "C08-time-window-agg-store": "GROUP BY time() aggregate with a small inner_chunk_size over rows that lack the aggregated field: an empty piece "
                                 "of one series makes the store-side aggregate cursor continue its pending time window into the next series / file "
                                 "(values counted twice or in the wrong partial result)",
    "C08-unknown-bool-field-eq-false": "`f = false` on a boolean field that does not exist in the measurement is true for every row "
                                       "(the missing value is cast to false), although the column is shown as null and `f = true` matches nothing",
    "C08-executor-panic-swallowed": "a panic of a processor is recovered by PipelineExecutor.work, which reports success: Execute returns nil and the "
                                    "statement answers with the rows produced so far (Crashed() is never consulted)",
    "C08-columnstore-rowfilter-operand-order": "column-store row filter: a condition whose operator has a compound RIGHT operand evaluated after two comparisons "
                                               "were left pending is computed over the wrong operands (A AND (B OR (C OR D)) as (A OR B) AND (C OR D))",
    "C08-read-error-swallowed": "a failed read of a data file during an aggregate query (or of a chunk-meta block during any query) is logged or "
                                "taken for 'cursor exhausted': the statement succeeds with the rows of one series / file missing",
    "C08-desc-agg-overlapping-files": "descending aggregate (time buckets or field filter) over overlapping sources (out-of-order files / memtable): "
                                      "the newest ordered file is treated as the last one and swallows all out-of-order rows (same root cause as "
                                      "C02-desc-filecursor-lastfile)",
    "C08-multicolumn-first-last-across-series": "first()/last() next to an aggregate of another field, group fed by several series, data partly "
                                                "in the memtable: the value of the wrong series is returned (right after the flush)",
}


def op_level(ck, coq_ok, known_counts):
    n = 40 if ck.tier == "quick" else 400
    if "op" not in PRE:
        return {}
    rc, out = PRE["op"]
    ops = [json.loads(l)["opcase"] for l in out.splitlines() if l.startswith('{"opcase"')]
    if rc != 0 or not ops:
        ck.broken.append("harness c08op failed rc=%d cases=%d: %s" % (rc, len(ops), out[-800:]))
        return {}
    hits, bad = {}, []
    for c in ops:
        if not c.get("fail"):
            continue
        live = [i for i in explain_op(c) if ck.match_finding(i)]
        if live:
            hits[live[0]] = hits.get(live[0], 0) + 1
        else:
            bad.append(c)
    for i in sorted(hits):
        known_counts[i] = known_counts.get(i, 0) + hits[i]
        ck.known_finding(i, FINDING_TEXT[i])
    for c in bad[:2]:
        ck.violation({"kind": "direct-oracle-operator", "what": "real FillTransform: %s failed (spec = fill every window of the range cell-wise; "
                      "invariance = same rows as the uncut run)" % c["fail"], "opcase": c}, tag="op")
    # the Coq L2 operator recomputes the specification on the same cuts (one case per group)
    mism = 0
    ncoq = 0
    if coq_ok:
        items, seen = [], set()
        for c in ops:
            st = c["stream"]
            key = json.dumps([st, c["cut"]], sort_keys=True)
            if key in seen:
                continue
            seen.add(key)
            for g, w in zip(st["groups"], c["want"]):
                items.append(op_case_coq(st, c["cut"], g, w))
        files = []
        canary = None
        for c in ops:
            if c["stream"]["groups"] and c["want"]:
                w = dict(c["want"][0])
                w["rows"] = list(w["rows"]) + [{"t": 990, "c": [None] * len(c["stream"]["cols"])}]
                canary = op_case_coq(c["stream"], c["cut"], c["stream"]["groups"][0], w)
                break
        if canary is None:
            ck.broken.append("operator-level model evaluation: no fill case to build the canary from")
        for k in range(0, len(items), 400) if canary else []:
            part = items[k:k + 400] + [canary]
            txt = ("From Coq Require Import ZArith List Bool. From OG Require Import C08.Model C08.Corr.\n"
                   "Import ListNotations. Open Scope Z_scope.\n"
                   "Definition cases : list opcase := [\n%s\n].\n"
                   "Definition M := Eval vm_compute in op_mismatches cases.\nPrint M.\n") % ";\n".join(part)
            files.append(("opcases_%d" % k, txt, len(part)))
        for r in eval_with_canary(ck, files, "operator level (fill)"):
            if r is not None:
                mism += len(r)
        ncoq = len(items)
        if mism:
            ck.broken.append("correspondence C08 (operator level): Coq fill_group_chunks and the Go specification twin disagree on %d group cases" % mism)
    more = op_more(ck, out, coq_ok)
    return {"more_operators": more, "cases": len(ops), "streams": n, "failing_known": sum(hits.values()), "failing_unexplained": len(bad),
            "passing": sum(1 for c in ops if not c.get("fail")), "group_cases_recomputed_by_coq": ncoq, "coq_mismatches": mism,
            "rule": "case = (stream, ChunkSize in {1024,1,2,3,5}, cut of the input rows: uncut, every single cut position, all singletons, 2 random cuts)"}


def main(ck):
    ck.assumptions += [
        "aggregation arithmetic of the model is exact (Z, rationals); the correspondence domain is restricted to dyadic floats k/8 "
        "of small magnitude so that binary64 sums are exact and mean = correctly rounded sum/count",
        "the order of rows with equal timestamps coming from different series is not fixed by the language: answers are compared "
        "with the model modulo that order; limit/offset is checked as a slice of the server's own unlimited answer",
        "data sets are written through /write in three batches with /debug/ctrl?mod=flush in between; background compaction and "
        "merge are switched off during the matrix (quick) and on for the 'compacted' phase (thorough)",
        "single node only (1 partition); cluster RPC transport and ptnum > 1 are not exercised",
    ]
    ck.cov["trusted_base"] = ["Coq 8.16.1 kernel + vm_compute (cases evaluation, Examples, refutation witnesses)",
                              "Go harness cmd/c08 (generator, reference evaluator ref.go, canonicaliser), python driver props/C08/run.py",
                              "ts-server HTTP API (/write, /query, /debug/ctrl) as the observation interface"]
    ck.coq_audit([PID])
    ok = ck.coq_build(["C08/Proofs.vo", "C08/DescMerge.vo", "C08/Rpn.vo", "C08/Prune.vo", "C08/Window.vo", "C08/WindowPart.vo", "C08/PipeProofs.vo", "C08/Corr.vo", "C08/Props.vo", "C08/Refuted.vo"])
    if ok:
        ck.coq_props(["C08/Props.v", "C08/Refuted.v"])
    server = ck.go_build_repo("./app/ts-server", "ts-server")
    binp = ck.go_build("./cmd/c08", "c08")
    bins = {"op": ck.go_build("./cmd/c08op", "c08op"), "fault": ck.go_build("./cmd/c08f", "c08f"), "store": ck.go_build("./cmd/c08s", "c08s")}
    if not server or not binp:
        return
    import threading
    side = threading.Thread(target=side_harnesses, args=(ck, bins))
    if not ck.replay:
        side.start()
    tmpl = os.path.join(ck.repo, "config", "openGemini.singlenode.conf")
    corpus = sorted(glob.glob(os.path.join(ck.verif, "corpus", PID, "*.json")))
    if ck.replay:
        nds, nq, files = 0, 0, [os.path.abspath(ck.replay)]
    elif ck.tier == "quick":
        nds, nq, files = 4, 40, corpus
    else:
        nds, nq, files = 12, 80, corpus
    rc, out = ck.run([binp, server, tmpl, str(nds), str(nq)] + files, timeout=3000)
    if not ck.replay:
        side.join()
        for k in ("op", "fault", "store"):
            if k not in PRE:
                ck.broken.append("in-process harness '%s' produced no output (%s)" % (k, PRE.get("error", "build failed")))
    datasets, cases = {}, []
    for l in out.splitlines():
        if l.startswith('{"dataset"'):
            d = json.loads(l)["dataset"]
            datasets[d["name"]] = d
        elif l.startswith('{"case"'):
            c = json.loads(l)["case"]
            c["failures"] = c.get("failures") or []
            cases.append(c)
    expected = sum(1 for _ in cases)
    if rc != 0 or not cases:
        ck.broken.append("harness c08 failed rc=%d cases=%d: %s" % (rc, len(cases), out[-1500:]))
        return
    ck.log("harness: %d data sets, %d queries, %d query executions" % (len(datasets), len(cases), sum(c["nconfigs"] for c in cases)))

    # ---- column-store stage: condition trees (cs.go)
    cs = [json.loads(l)["cscase"] for l in out.splitlines() if l.startswith('{"cscase"')]
    cserr = [json.loads(l)["cserror"] for l in out.splitlines() if l.startswith('{"cserror"')]
    if not ck.replay:
        if cserr or not cs:
            ck.broken.append("column-store stage did not run: %s" % (cserr or "no cscase lines"))
        csbad = [c for c in cs if c.get("fail")]
        # signature: the two-stack discipline does not compute the condition's own tree (structural, decidable on the
        # statement); whether the answer is exactly the twin's evaluation is recorded as evidence only (the slot the real
        # code puts a new bitmap in makes some deeper shapes come out differently again)
        csknown = [c for c in csbad if c.get("two_stack_differs") and finding_open(ck, "C08-columnstore-rowfilter-operand-order")]
        if csknown:
            ck.known_finding("C08-columnstore-rowfilter-operand-order", FINDING_TEXT["C08-columnstore-rowfilter-operand-order"])
        for c in sorted([c for c in csbad if c not in csknown], key=lambda c: len(c["sql"]))[:1]:
            ck.violation({"kind": "direct-oracle-columnstore", "what": "column-store measurement t1 (600 generated rows, flushed): the statement returned %d ids, the "
                          "reference evaluation of the condition tree %d (%s)" % (c["got"], c["want"], c.get("err") or "missing %s extra %s" % (c.get("missing"), c.get("extra"))),
                          "cscase": c}, tag="cs")
        ck.cov["column_store_conditions"] = {"cases": len(cs), "failing": len(csbad), "failing_known": len(csknown),
                                             "shapes_where_two_stack_differs": sum(1 for c in cs if c.get("two_stack_differs")),
                                             "failing_answers_equal_to_the_two_stack_twin": sum(1 for c in csbad if c.get("is_two_stack_answer"))}
    # ---- direct oracle verdicts
    known_counts = {}
    unexplained = []
    # a finding split off another one by root cause is reported under the old id until the central known_findings.json
    # (merged from the fragments by tools/merge.py) knows the new id
    known_ids = {x["id"] for x in ck.findings}
    alias = {"C08-desc-agg-overlapping-files": "C08-time-window-agg-store"}
    for c in cases:
        for f in c["failures"]:
            ids = [i if i in known_ids else alias.get(i, i) for i in explain(c, f)]
            live = [i for i in ids if finding_open(ck, i)]
            if live:
                # a failure matching several signatures is charged to the first matching finding of PRIORITY: findings without
                # a repair first, then those with a proposed patch (fix2.patch, props/C02/fix2.patch), then the ones already
                # repaired in /repo - so that on a patched tree the repaired findings' lines disappear
                i = min(live, key=lambda x: PRIORITY.index(x) if x in PRIORITY else -1)
                known_counts[i] = known_counts.get(i, 0) + 1
            else:
                unexplained.append((c, f, ids))
    for i in sorted(known_counts):
        ck.known_finding(i, FINDING_TEXT[i])
    seen = set()
    for c, f, ids in unexplained:
        if c["sql"] in seen or len(seen) >= 3:
            continue
        seen.add(c["sql"])
        ds = datasets.get(c["ds"])
        inner = sorted({x["config"].get("inner", 0) for x in c["failures"] if x["config"].get("inner", 0) > 0})
        ck.violation({"kind": "direct-oracle", "what": "oracle '%s' failed under configuration %s (matching fixed findings: %s)" % (
            f["kind"], json.dumps(f["config"]), ids), "sql": c["sql"], "got": f.get("got"), "want": f.get("want"),
            "dataset": ds, "queries": [c["query"]], "inner": inner})
    if ck.replay:
        for c in cases:
            kinds = {}
            for f in c["failures"]:
                k = (f["kind"], tuple(explain(c, f)))
                kinds[k] = kinds.get(k, 0) + 1
            ck.log("replay:", c["sql"], "| executions:", c["nconfigs"], "| failing oracle/finding-signature counts:", kinds or "none")

    # ---- the Coq L1 model recomputes every reference answer (ascending and descending)
    files = []
    index = []
    if ok:
        by_ds = {}
        for i, c in enumerate(cases):
            by_ds.setdefault(c["ds"], []).append(i)
        for name, idxs in by_ds.items():
            for k in range(0, len(idxs), 25):
                part = idxs[k:k + 25]
                items = []
                for i in part:
                    c = cases[i]
                    items.append("(%s, %s)" % (query_coq(c["query"], False), answer_coq(c["ref_asc"])))
                    items.append("(%s, %s)" % (query_coq(c["query"], True), answer_coq(c["ref_desc"])))
                # canary: the first query with one more (empty-keyed) group in the expected answer - must be reported
                c0 = cases[part[0]]
                items.append("(%s, %s)" % (query_coq(c0["query"], False),
                                           answer_coq(list(c0["ref_asc"] or []) + [{"key": [987654], "rows": [{"t": 1, "c": [{"null": True}]}]}])))
                txt = ("From Coq Require Import ZArith List Bool. From OG Require Import C08.Model C08.Corr.\n"
                       "Import ListNotations. Open Scope Z_scope.\n"
                       "Definition db : database := %s.\n"
                       "Definition cases : list (query * answer) := [\n%s\n].\n"
                       "Definition M := Eval vm_compute in mismatches db cases.\nPrint M.\n") % (
                    dataset_coq(datasets[name]), ";\n".join(items))
                files.append(("cases_%s_%d" % (name, k), txt, len(items)))
                index.append(part)
        mism = []
        for part, r in zip(index, eval_with_canary(ck, files, "L1 reference answers")):
            for j in r or []:
                mism.append((part[j // 2], "desc" if j % 2 else "asc"))
        if mism:
            i, o = mism[0]
            ck.broken.append("correspondence C08: Coq L1 eval_query and the Go reference evaluator disagree on %d answers (first: %s, %s)" % (
                len(mism), cases[i]["sql"], o))
            ck.nofail_detail = {"kind": "correspondence", "sql": cases[i]["sql"], "order": o, "query": cases[i]["query"],
                                "dataset": datasets.get(cases[i]["ds"])}
        validated = len(cases) - len({i for i, _ in mism})
    else:
        validated = 0

    ck.log("L1 answers recomputed by the model: %d" % (validated * 2))
    # ---- (C1) operator level: the real FillTransform on every cut of small streams
    op_cov = op_level(ck, ok, known_counts)
    ck.log("operator level done")
    # ---- fault stage: error-or-correct under one injected storage read error
    ck.cov["fault_stage"] = fault_stage(ck)
    ck.log("fault stage done")
    # ---- store-side operator level: aggregate cursors on every piece cut
    ck.cov["store_level"] = store_stage(ck, ok)
    ck.log("store level done")

    # ---- coverage
    hist = {}
    for c in cases:
        q = c["query"]
        k = q["kind"]
        if k == "agg":
            k += "/iv" if q.get("interval") else "/noiv"
            if q.get("interval"):
                k += "/fill_" + q.get("fill", "none")
        if q.get("limit") or q.get("offset"):
            k += "/limit"
        k += "/grp%d" % len(q.get("group") or [])
        hist[k] = hist.get(k, 0) + 1
    fn_hist = {}
    for c in cases:
        for a in c["query"].get("aggs") or []:
            fn_hist[a["fn"]] = fn_hist.get(a["fn"], 0) + 1
    ck.cov["evaluations"] = sum(c["nconfigs"] for c in cases)
    ck.cov["queries"] = len(cases)
    ck.cov["distinct_nontrivial"] = len({c["ds"] + "|" + c["sql"] for c in cases if c["nontrivial"]})
    ck.cov["rule"] = ("one evaluation = one HTTP execution of a query under one configuration (inner_chunk_size x chunked/chunk_size x "
                      "chunk_reader_parallel x phase x asc/desc); non-trivial = the reference answer has at least 2 rows; distinct = "
                      "different (data set, query text)")
    ck.cov["traces_validated_against_impl"] = sum(1 for c in cases if not c["failures"])
    ck.cov["answers_recomputed_by_coq_model"] = validated * 2
    ck.cov["query_histogram"] = hist
    ck.cov["aggregate_histogram"] = fn_hist
    ck.cov["layout_histogram"] = {k: sum(1 for d in datasets.values() if ("inorder" if d.get("inorder") else "ooo") == k) for k in ("inorder", "ooo")}
    ck.cov["known_finding_hits"] = known_counts
    ck.cov["variant_histogram"] = {v: sum(1 for c in cases if c["variant"] == v) for v in ("repaired", "current", "none")}
    ck.cov["samples"] = [c["sql"] for c in cases[:6]]
    ck.cov["operator_level"] = op_cov
    ck.cov["known_finding_hits"] = known_counts
