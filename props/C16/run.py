"""C16 - the meta catalogue stays well-formed. See DESIGN.md section C16 and props/C16/NOTES.md."""
import json
import os
import re
import vlib
from vlib import coq_z, coq_bool, coq_list

PID = "C16"
F_OVERLAP = "C16-overlap-after-duration-change"
F_DEFAULT = "C16-default-policy-dangling"
F_HALF = "C16-create-measurement-half-applied"
F_RENAME = "C16-policy-rename-stale-key"
F_PANIC = "C16-ptview-without-database-panics-on-node-join"
F_WRAP = "C16-restore-wraps-early-group-start"
F_CANCEL = "C16-cancel-delete-revives-group-under-live-group"


# ------------------------------------------------------------------------------------------------ rendering
def code(s):
    if s == "":
        return 0
    if s == "autogen":
        return 4
    m = re.fullmatch(r"(?:db|rp|m)(\d+)", s)
    return int(m.group(1)) if m else 99


def zl(xs):
    return coq_list([coq_z(x) for x in xs])


def dump_coq(d, per, sclean):
    dbs, pols = [], []
    for db in d["dbs"]:
        dbs.append("{| db_name := %s; db_default := %s; db_mark := %s |}" % (coq_z(code(db["key"])), coq_z(code(db["default"])), coq_bool(db["mark"])))
        for rp in db["rps"]:
            msts = coq_list(["{| ms_name := %s; ms_ver := %s; ms_id := %s; ms_mark := %s |}" % (
                coq_z(code(m["orig"])), coq_z(int(m["key"][-4:])), coq_z(m["id"]), coq_bool(m["mark"])) for m in rp["msts"]])
            vers = coq_list(["(%s, %s)" % (coq_z(code(v["name"])), coq_z(v["ver"])) for v in rp["vers"]])
            sgs = coq_list(["{| sg_id := %s; sg_start := %s; sg_end := %s; sg_del := %s; sg_eng := %s; sg_dur := %s; sg_shards := %s |}" % (
                coq_z(g["id"]), coq_z(g["start"]), coq_z(g["end"]), coq_bool(g["deleted"]), coq_z(g["eng"]), coq_z(g["dur"]),
                coq_list(["{| sh_id := %s; sh_owners := %s; sh_index := %s; sh_mark := %s |}" % (
                    coq_z(s["id"]), zl(s["owners"]), coq_z(s["index"]), coq_bool(s["mark"])) for s in g["shards"]])) for g in rp["sgs"]])
            igs = coq_list(["{| ig_id := %s; ig_start := %s; ig_end := %s; ig_del := %s; ig_eng := %s; ig_indexes := %s |}" % (
                coq_z(g["id"]), coq_z(g["start"]), coq_z(g["end"]), coq_bool(g["deleted"]), coq_z(g["eng"]),
                coq_list(["{| ix_id := %s; ix_owners := %s; ix_mark := %s |}" % (coq_z(s["id"]), zl(s["owners"]), coq_bool(s["mark"]))
                          for s in g["indexes"]])) for g in rp["igs"]])
            pols.append("{| rp_db := %s; rp_name := %s; rp_nm := %s; rp_dur := %s; rp_sgdur := %s; rp_igdur := %s; rp_mark := %s; rp_msts := %s; "
                        "rp_vers := %s; rp_sgs := %s; rp_igs := %s |}" % (
                            coq_z(code(db["key"])), coq_z(code(rp["key"])), coq_z(code(rp["name"])), coq_z(rp["d"]), coq_z(rp["sgd"]), coq_z(rp["igd"]),
                            coq_bool(rp["mark"]), msts, vers, sgs, igs))
    nodes = coq_list(["{| nd_id := %s; nd_http := %s; nd_tcp := %s; nd_conn := %s |}" % (
        coq_z(n["id"]), coq_z(int(n["host"][1:].split(":")[0])), coq_z(int(n["tcp"][1:].split(":")[0])), coq_z(n["conn"])) for n in d["nodes"]])
    ptv = coq_list(["(%s, %s)" % (coq_z(code(v["db"])), coq_list([
        "{| pt_owner := %s; pt_status := %s; pt_ver := %s |}" % (coq_z(p["owner"]), coq_z(p["status"]), coq_z(p["ver"])) for p in v["pts"]]))
        for v in d["ptview"]])
    return ("{| dbs := %s; pols := %s; nodes := %s; ptview := %s; ptnum := %s; ptper := %s; sclean := %s; clampst := false; schemafirst := false; rekey := false; safecancel := false; max_node := %s; max_sg := %s; "
            "max_sh := %s; max_mst := %s; max_ig := %s; max_ix := %s; max_conn := %s |}" % (
                coq_list(dbs), coq_list(pols), nodes, ptv, coq_z(d["ptnum"]), coq_z(per), coq_bool(sclean), coq_z(d["max_node"]),
                coq_z(d["max_sg"]), coq_z(d["max_sh"]), coq_z(d["max_mst"]), coq_z(d["max_ig"]), coq_z(d["max_ix"]), coq_z(d["max_conn"])))


def opt(v):
    return "None" if v is None else "(Some %s)" % coq_z(v)


def cmd_coq(c):
    k = c["k"]
    db, rp, m = coq_z(c.get("db", 0)), coq_z(c.get("rp", 0)), coq_z(c.get("m", 0))
    if c.get("x"):
        return None
    if k == "cdb":
        if c.get("hasrp"):
            return "CreateDb %s %s %s %s" % (db, rp, coq_z(c.get("d", 0)), coq_z(c.get("sgd", 0)))
        return "CreateDb %s 4%%Z 0%%Z 0%%Z" % db   # the auto-created policy "autogen"
    if k == "markdb":
        return "MarkDb %s" % db
    if k == "dropdb":
        return "DropDb %s" % db
    if k == "crp":
        return "CreateRp %s %s %s %s %s" % (db, rp, coq_z(c.get("d", 0)), coq_z(c.get("sgd", 0)), coq_bool(c.get("def", False)))
    if k == "urp":
        return "UpdateRp %s %s %s %s %s" % (db, rp, opt(c.get("d")), opt(c.get("sgd")), coq_bool(c.get("def", False)))
    if k == "markrp":
        return "MarkRp %s %s" % (db, rp)
    if k == "droprp":
        return "DropRp %s %s" % (db, rp)
    if k == "setdef":
        return "SetDefault %s %s" % (db, rp)
    if k == "cmst":
        return "CreateMst %s %s %s" % (db, rp, m)
    if k == "markmst":
        return "MarkMst %s %s %s" % (db, rp, m)
    if k == "dropmst":
        return "DropMst %s %s %s %s" % (db, rp, m, coq_z(c.get("ver", 0)))
    if k == "csg":
        return "CreateSg %s %s %s %s" % (db, rp, coq_z(c.get("ts", 0)), coq_z(c.get("eng", 0)))
    if k == "delsg":
        return "DeleteSg %s %s %s" % (db, rp, coq_z(c.get("id", 0)))
    if k == "prunesg":
        return "PruneSg %s" % coq_z(c.get("id", 0))
    if k == "delig":
        return "DeleteIg %s %s %s" % (db, rp, coq_z(c.get("id", 0)))
    if k == "pruneig":
        return "PruneIg %s" % coq_z(c.get("id", 0))
    if k == "cnode":
        return "CreateNode %s %s" % (coq_z(c.get("h", 0)), coq_z(c.get("t", 0)))
    if k == "restore":
        return "Restore"
    if k == "cptv":
        return "CreatePtView %s" % db
    if k == "uptinfo":
        return "UpdatePt %s %s %s %s %s %s" % (db, coq_z(c.get("pt", 0)), coq_z(c.get("cowner", 0)), coq_z(c.get("cstat", 0)),
                                              coq_z(c.get("owner", 0)), coq_z(c.get("status", 0)))
    return None


def cmd_coq_x(c):
    """the commands of the C16 model incl. those added in round 5 (cmd_coq keeps its old range: props/C15/run.py imports it)"""
    k, x = c["k"], c.get("x")
    db, rp, m = coq_z(c.get("db", 0)), coq_z(c.get("rp", 0)), coq_z(c.get("m", 0))
    if k == "expand":
        return "XExpand"
    if k == "cmst" and x == "badschema":
        return "Base (CreateMstBad %s %s %s)" % (db, rp, m)
    if k == "urp" and x == "rename":
        return "Base (RenameRp %s %s %s %s %s %s)" % (db, rp, m, opt(c.get("d")), opt(c.get("sgd")), coq_bool(c.get("def", False)))
    if k == "delsg" and x == "cancel":
        return "Base (CancelDeleteSg %s %s %s)" % (db, rp, coq_z(c.get("id", 0)))
    if k == "rmnode":
        return "Base (RemoveNode %s)" % coq_z(c.get("id", 0))
    t = cmd_coq(c)
    return None if t is None else "Base (%s)" % t


def case_coq(cs):
    steps = []
    modelled = cs["modelled"]
    for c, r, d in zip(cs["cmds"], cs["res"], cs["dumps"]):
        if r == 2:
            break   # the state machine panicked: nothing to compare, the process is gone
        t = cmd_coq_x(c) if modelled else None
        if t is not None and cs.get("xshards") and c["k"] == "cnode" and not c.get("x"):
            t = "XJoin %s %s" % (coq_z(c.get("h", 0)), coq_z(c.get("t", 0)))   # a join on a store with expand-shards-enable
        if t is None:
            modelled = False
            t = "Base (PruneSg 0%Z)"
        steps.append("(%s, %s, %s)" % (t, coq_bool(r == 0), dump_coq(d, cs["ptper"], cs["sclean"])))
    return "(%s, %s, %s, %s)" % (coq_z(cs["ptper"]), coq_bool(cs["sclean"]), coq_bool(modelled), coq_list(steps)), modelled


VERDICT_RE = re.compile(r"v_match\s*:=\s*\[(.*?)\];\s*v_wf\s*:=\s*\[(.*?)\];\s*v_cover\s*:=\s*\[(.*?)\]", re.S)
# code variants in the order of Corr.variants: today's tree (every repair has landed) and today's tree with one landed repair reverted
VARIANTS = ["head", "head-2b62e48(clip)", "head-b424c13(default cleared)", "head-3695b47(start clamped)", "head-f21700b(schema first)",
            "head-f36a23d(rename re-keys)", "head-b51128b(guarded cancel)"]

WF_KINDS = {"overlap", "unaligned", "unsorted", "dup-id", "id-over-counter", "dangling-index", "dangling-owner", "default-missing",
            "ptview-size", "empty-span", "key-name-mismatch"}


# ------------------------------------------------------------------------------------------------ signatures
def classify(cs, f):
    """Returns the id of the known-finding signature a direct-oracle failure falls under, or None."""
    k, d, step = f["kind"], f["detail"], f["step"]
    cmd = cs["cmds"][step]
    if k in ("empty-span", "unaligned", "unsorted", "overlap"):
        # a group that started below -2^63 ns went through a snapshot/restore: find the restore step at which the groups named
        # by this failure changed their start
        gids = {d.get(x) for x in ("g", "g1", "g2")} - {None}
        def starts(dump):
            return {str(g["id"]): int(g["start"]) for db in dump["dbs"] for rp in db["rps"] for g in rp["sgs"]}
        for i in range(1, step + 1):
            if cs["cmds"][i]["k"] == "restore":
                a, b = starts(cs["dumps"][i - 1]), starts(cs["dumps"][i])
                if any(g in a and a[g] < -2**63 and b.get(g) != a[g] for g in gids):
                    return F_WRAP
    if k == "overlap":
        # one of the two groups was deleted and revived by DeleteShardGroup(CancelDelete) at or before this step, while the other
        # one was live: find the cancel command that first produced this very overlap
        first = step
        for g in cs["oracle"]:
            if g["kind"] == k and g["detail"].get("g1") == d.get("g1") and g["detail"].get("g2") == d.get("g2"):
                first = min(first, g["step"])
        c0 = cs["cmds"][first]
        if c0["k"] == "delsg" and c0.get("x") == "cancel" and str(c0.get("id", 0)) in (d.get("g1"), d.get("g2")):
            return F_CANCEL
        # two live groups of one policy and engine type created under different shard-group durations
        if d["dur1"] != d["dur2"]:
            return F_OVERLAP
        return None
    if k == "default-missing":
        # the database's default policy name stopped resolving because DropRetentionPolicy removed that very policy
        first = step
        for g in cs["oracle"]:
            if g["kind"] == k and g["detail"] == d:
                first = min(first, g["step"])
        c0 = cs["cmds"][first]
        if c0["k"] == "droprp" and not c0.get("x") and "db%d" % c0.get("db", 0) == d["db"] and code(d["default"]) == c0.get("rp", 0):
            return F_DEFAULT
        return None
    if k == "failed-changed":
        # CreateMeasurement whose schema list names one field twice with different types: the measurement is added, then
        # the schema update fails
        if cmd["k"] == "cmst" and cmd.get("x") == "badschema":
            return F_HALF
        return None
    if k == "key-name-mismatch" and d.get("what") == "rp":
        # UpdateRetentionPolicy with a new name: the policy keeps its old map key
        if cmd["k"] == "urp" and cmd.get("x") == "rename" and cs["res"][step] == 0:
            return F_RENAME
        return None
    return None


# ------------------------------------------------------------------------------------------------ dispatch table of the state machine
# command types of storeFSM's applyFunc table (read from the source on every run) against what this check does with them
DISPATCH_MODELLED = {   # command type -> harness command kinds that exercise it through the Coq model
    "CreateDatabaseCommand": ["cdb"], "DropDatabaseCommand": ["dropdb"], "MarkDatabaseDeleteCommand": ["markdb"],
    "CreateRetentionPolicyCommand": ["crp"], "DropRetentionPolicyCommand": ["droprp"], "MarkRetentionPolicyDeleteCommand": ["markrp"],
    "SetDefaultRetentionPolicyCommand": ["setdef"], "UpdateRetentionPolicyCommand": ["urp", "urp/rename"],
    "CreateShardGroupCommand": ["csg"], "DeleteShardGroupCommand": ["delsg", "delsg/cancel"],
    "CreateMeasurementCommand": ["cmst", "cmst/badschema"], "MarkMeasurementDeleteCommand": ["markmst"], "DropMeasurementCommand": ["dropmst"],
    "PruneGroupsCommand": ["prunesg", "pruneig"], "DeleteIndexGroupCommand": ["delig"], "CreateDataNodeCommand": ["cnode"],
    "RemoveNodeCommand": ["rmnode"], "CreateDbPtViewCommand": ["cptv"], "UpdatePtInfoCommand": ["uptinfo"], "ExpandGroupsCommand": ["expand"],
}
DISPATCH_ORACLE_ONLY = {"AlterShardKeyCmd": ["altkey"], "UpdateSchemaCommand": ["updschema"]}
# change the catalogue the statement speaks about but are not generated (see NOTES.md "Not covered")
DISPATCH_NOT_COVERED = {"ReShardingCommand", "UpdateShardInfoTierCommand", "UpdateIndexInfoTierCommand", "UpdateNodeStatusCommand", "DeleteDataNodeCommand",
                        "CreateEventCommand", "UpdateEventCommand", "RemoveEventCommand", "CreateDownSamplePolicyCommand", "DropDownSamplePolicyCommand",
                        "UpdateShardDownSampleInfoCommand", "UpdatePtVersionCommand", "UpdateReplicationCommand", "UpdateMeasurementCommand",
                        "ReplaceMergeShardsCommand", "RecoverMetaData", "SetDataCommand", "InsertFilesCommand", "SetNodeSegregateStatusCommand"}
# state outside the C16 statement (users, subscriptions, streams, continuous queries, meta / sql nodes, flags): property C15
DISPATCH_OUTSIDE = {"CreateSubscriptionCommand", "DropSubscriptionCommand", "CreateUserCommand", "DropUserCommand", "UpdateUserCommand", "SetPrivilegeCommand",
                    "SetAdminPrivilegeCommand", "CreateMetaNodeCommand", "DeleteMetaNodeCommand", "SetMetaNodeCommand", "CreateSqlNodeCommand",
                    "UpdateSqlNodeStatusCommand", "UpdateMetaNodeStatusCommand", "MarkTakeoverCommand", "MarkBalancerCommand", "CreateStreamCommand",
                    "DropStreamCommand", "VerifyDataNodeCommand", "RegisterQueryIDOffsetCommand", "CreateContinuousQueryCommand",
                    "ContinuousQueryReportCommand", "DropContinuousQueryCommand", "NotifyCQLeaseChangedCommand", "UpdateNodeTmpIndexCommand"}


def dispatch_table(ck, hist):
    src = os.path.join(ck.repo, "app", "ts-meta", "meta", "store_fsm.go")
    try:
        text = open(src).read()
    except OSError as e:
        ck.broken.append("dispatch table: cannot read %s: %s" % (src, e))
        return
    m = re.search(r"var applyFunc = map\[proto2\.Command_Type\][^{]*\{(.*?)\n\}", text, re.S)
    types = re.findall(r"proto2\.Command_(\w+)\s*:\s*\w+\s*,", m.group(1)) if m else []
    if len(types) < 40 or len(set(types)) != len(types):
        ck.broken.append("dispatch table of storeFSM (applyFunc) could not be read from %s (%d entries)" % (src, len(types)))
        return
    known = set(DISPATCH_MODELLED) | set(DISPATCH_ORACLE_ONLY) | DISPATCH_NOT_COVERED | DISPATCH_OUTSIDE
    unclassified = sorted(set(types) - known)
    vanished = sorted(known - set(types))
    def ran(kinds):
        return sum(v for k, v in hist.items() if k.rsplit(":", 1)[0] in kinds)
    idle = sorted(t for t, kinds in list(DISPATCH_MODELLED.items()) + list(DISPATCH_ORACLE_ONLY.items()) if t in types and ran(kinds) == 0)
    ck.cov["dispatch"] = {"source": "app/ts-meta/meta/store_fsm.go applyFunc", "entries": len(types),
                          "modelled_and_generated": sorted(t for t in DISPATCH_MODELLED if t in types),
                          "oracle_only": sorted(t for t in DISPATCH_ORACLE_ONLY if t in types),
                          "catalogue_commands_not_covered": sorted(t for t in DISPATCH_NOT_COVERED if t in types),
                          "outside_the_statement": sorted(t for t in DISPATCH_OUTSIDE if t in types),
                          "unclassified": unclassified, "no_longer_in_the_table": vanished, "not_exercised_in_this_run": idle}
    if unclassified:
        ck.notes.append("command types in storeFSM's dispatch table that this check neither models nor classifies: %s" % unclassified)
    if vanished:
        ck.notes.append("command types this check knows but the dispatch table no longer has: %s" % vanished)
    if idle and not getattr(ck, "replay", None):
        ck.broken.append("modelled command types that no generated command exercised in this run: %s" % idle)


def setup():
    return 0


def main(ck):
    # entries of the committed per-property fragment that have not been merged into known_findings.json yet (read-only)
    frag = os.path.join(ck.verif, "props", PID, "findings.json")
    have = {f["id"] for f in ck.findings}
    ck.findings += [f for f in json.load(open(frag))["findings"] if f["property"] == PID and f["id"] not in have]
    ck.assumptions += [
        "instants of CreateShardGroup lie in [models.MinNanoTime, models.MaxNanoTime] (the database's time domain); Go time.Time "
        "arithmetic (Truncate anchored at year 1, Add) is exact integer arithmetic there",
        "environment: PruneGroups(index id) is only issued for an index no shard of the catalogue refers to any more (the store "
        "prunes an index after its shards); retention policies carry only Duration and ShardGroupDuration (hot/warm/cold/merge 0), "
        "replica number 1, HASH shard keys, all data nodes are writers, HA policy write-available-first",
        "wall-clock deletion stamps are compared as set/unset; error values as error/no error",
    ]
    ck.cov["trusted_base"] = ["Coq 8.16.1 kernel + vm_compute (cases evaluation, witnesses, Examples)", "no axioms (Print Assumptions: closed)",
                              "Go harness cmd/c16 (dump, direct oracle, generator), python driver props/C16/run.py (dump -> Coq term)"]
    ck.coq_audit(["C16"])
    ok = ck.coq_build(["C16/Props.vo", "C16/Refuted.vo", "C16/Corr.vo", "C16/Expand.vo", "C16/ProofsExpandWf.vo"], timeout=2400)
    if ok:
        ck.coq_props(["C16/Props.v", "C16/Refuted.v"])
    binp = ck.go_build("./cmd/c16", "c16")
    if not binp:
        return
    if getattr(ck, "replay", None):
        rep = json.load(open(ck.replay))
        src = os.path.join(ck.work, "replay_case.json")
        json.dump(rep.get("case", rep), open(src, "w"))
        rc, out = ck.run([binp, "replay", src], timeout=600)
    else:
        n, nx = (220, 80) if ck.tier == "quick" else (4000, 1500)
        rc, out = ck.run([binp, str(n), str(nx)], timeout=3000, env={"VERIF_CORPUS": os.path.join(ck.verif, "corpus", PID)})
    cases = []
    for l in out.splitlines():
        if l.startswith('{"name"'):
            try:
                cases.append(json.loads(l))
            except ValueError:
                ck.broken.append("unparsable harness line")
    if rc != 0 or not cases:
        ck.broken.append("harness c16 failed rc=%d cases=%d: %s" % (rc, len(cases), out[-500:]))
        return
    panic_known = set()
    for ci, bad in enumerate(cases):
        if 2 not in bad["res"]:
            continue
        i = bad["res"].index(2)
        c = bad["cmds"][i]
        before = bad["dumps"][i - 1] if i > 0 else {"dbs": [], "ptview": []}
        orphan = [v["db"] for v in before["ptview"] if v["db"] not in {d["key"] for d in before["dbs"]}]
        # signature: a data-node join (CreateDataNodeCommand) panics while the partition view holds a database that is not
        # in the catalogue (the view is created before the database by the server's createDatabase handler)
        if c["k"] == "cnode" and orphan and ck.match_finding(F_PANIC):
            panic_known.add(ci)
            if any(F_PANIC in k for k in ck.known):
                continue
            ck.known_finding(F_PANIC, "the state machine panics on the node join at step %d of case %s (partition view for %s without a database)" % (i, bad["name"], orphan))
            panic_known.add(ci)
        else:
            ck.violation({"kind": "direct-oracle", "what": {"kind": "panic", "step": i}, "case": {k: bad[k] for k in ("name", "ptper", "sclean", "modelled", "xshards") if k in bad} |
                          {"cmds": bad["cmds"][:i + 1]}, "explanation": "storeFSM.executeCmd panicked on this command sequence"})

    # ---- model evaluation
    shard = 12 if ck.tier == "quick" else 40
    files, modelled = [], []
    # canary, appended to EVERY evaluation file: a modelled case whose last dump is corrupted (MaxShardGroupID = -5). Every model
    # variant must report a disagreement on it and wf_b must reject its last dump; an evaluation that does not say so is blind.
    can_src = next((c for c in cases if c["modelled"] and 2 not in c["res"] and len(c["cmds"]) >= 3 and cmd_coq_x(c["cmds"][-1])), None)
    canary = None
    if can_src is not None:
        canary = json.loads(json.dumps(can_src))
        canary["dumps"][-1]["max_sg"] = -5
        canary_term, cm = case_coq(canary)
        if not cm:
            canary = None
    if canary is None:
        ck.broken.append("C16 evaluation canary could not be built (no fully modelled case in this run)")
    for i in range(0, len(cases), shard):
        terms = []
        for c in cases[i:i + shard]:
            t, m = case_coq(c)
            terms.append(t)
            modelled.append(m)
        if canary is not None:
            terms.append(canary_term)
        files.append(("cases%d" % (i // shard),
                      "From Coq Require Import ZArith List Bool. From OG Require Import C16.Model C16.Expand C16.Corr.\n"
                      "Import ListNotations. Open Scope Z_scope.\n"
                      "Definition cases : list (Z * bool * bool * list step_obs) := [\n%s\n].\n"
                      "Definition M := Eval vm_compute in check_cases cases.\nPrint M.\n" % ";\n".join(terms)))
    res = ck.coq_eval_many(files, timeout=1200) if ok else []
    if len(res) != len(files):
        ck.broken.append("model evaluation did not run (%d of %d files evaluated)" % (len(res), len(files)))
    verdicts = []
    extra_n = 1 if canary is not None else 0
    for idx in range(len(files)):
        want = len(cases[idx * shard:(idx + 1) * shard])
        rc2, o = res[idx] if idx < len(res) else (1, "not evaluated")
        vs = VERDICT_RE.findall(o)
        # fail closed: exactly one verdict record per case (+ the canary), every record complete
        if rc2 != 0 or len(vs) != want + extra_n or o.count("v_match") != want + extra_n:
            ck.broken.append("model evaluation failed on shard %d: %s" % (idx, o[-600:]))
            verdicts += [None] * want
            continue
        parsed = []
        for mt, wf, cov in vs:
            # Coq prints a scope suffix on the first element of a non-empty list of naturals ([5%nat; 7])
            mt, wf, cov = (re.sub(r"%(nat|Z)\b", "", x) for x in (mt, wf, cov))
            nums = [int(x) for x in re.findall(r"-?\d+", mt)]
            if len(nums) != len(VARIANTS) or re.sub(r"[\s;\-\d]", "", mt) or re.sub(r"[\s;\d]", "", wf) or re.sub(r"[\s;\d]", "", cov):
                parsed = None
                break
            v = {name: nums[k] for k, name in enumerate(VARIANTS)}
            v["wf"] = [int(x) for x in re.findall(r"\d+", wf)]
            v["cover"] = [int(x) for x in re.findall(r"\d+", cov)]
            parsed.append(v)
        if parsed is None:
            ck.broken.append("model evaluation output of shard %d could not be read completely: %s" % (idx, o[-400:]))
            verdicts += [None] * want
            continue
        if extra_n:
            cv = parsed.pop()
            last = len(canary["cmds"]) - 1
            if any(cv[name] == -1 for name in VARIANTS) or last not in cv["wf"]:
                ck.broken.append("C16 evaluation canary not reported on shard %d (a corrupted dump passed as matching / well-formed): %s" % (idx, cv))
        verdicts += parsed
    if len(verdicts) != len(cases):
        ck.broken.append("model evaluation returned %d verdicts for %d cases" % (len(verdicts), len(cases)))
        verdicts += [None] * (len(cases) - len(verdicts))

    # ---- which variant does the working tree implement?
    variants = list(VARIANTS)
    alive = set(variants)
    first_bad = {}
    validated = 0
    for i, (cs, v) in enumerate(zip(cases, verdicts)):
        if v is None or not modelled[i]:
            continue
        for name in variants:
            if v[name] != -1:
                alive.discard(name)
                first_bad.setdefault(name, (i, v[name]))
        if any(v[name] == -1 for name in variants):
            validated += 1
    impl = sorted(alive)
    ck.notes.append("model variants matching the implementation on every modelled case: %s" % (impl or "none"))

    # ---- direct oracle verdicts
    hist, nontriv = {}, set()
    reported = set()
    oracle_unknown = []
    for i, cs in enumerate(cases):
        for c, r in zip(cs["cmds"], cs["res"]):
            key = c["k"] + ("/" + c["x"] if c.get("x") else "") + (":err" if r else ":ok")
            hist[key] = hist.get(key, 0) + 1
        if cs["nontrivial"]:
            nontriv.add(json.dumps(cs["cmds"], sort_keys=True))
        for f in cs["oracle"]:
            if i in panic_known and cs["res"][f["step"]] == 2:
                continue
            fid = classify(cs, f)
            if fid and ck.match_finding(fid):
                if fid not in reported:
                    reported.add(fid)
                    ck.known_finding(fid, "%s at step %d of case %s (%s)" % (f["kind"], f["step"], cs["name"], json.dumps(f["detail"], sort_keys=True)))
            else:
                oracle_unknown.append((i, f))
        # the boolean well-formedness of the model, evaluated on the real dumps, agrees with the Go oracle
        v = verdicts[i] if i < len(verdicts) else None
        if v is not None:
            go_bad = sorted({f["step"] for f in cs["oracle"] if f["kind"] in WF_KINDS and cs["res"][f["step"]] != 2
                             and not (f["kind"] == "key-name-mismatch" and f["detail"].get("what") != "rp")})
            if go_bad != sorted(v["wf"]):
                ck.broken.append("wf_b (Coq, on the real dumps) and the Go oracle disagree on case %s: coq=%s go=%s" % (cs["name"], v["wf"], go_bad))
            go_cov = sorted({f["step"] for f in cs["oracle"] if f["kind"] == "index-ends-early" and cs["res"][f["step"]] != 2})
            if go_cov != sorted(v["cover"]):
                ck.broken.append("covered_b (Coq, on the real dumps) and the Go oracle disagree on case %s: coq=%s go=%s" % (cs["name"], v["cover"], go_cov))
    seen_v = set()
    for i, f in oracle_unknown:
        cs = cases[i]
        key = (f["kind"], cs["cmds"][f["step"]]["k"])
        if key in seen_v or len(seen_v) >= 4:
            continue
        seen_v.add(key)
        ck.violation({"kind": "direct-oracle", "what": f, "case": {k: cs[k] for k in ("name", "ptper", "sclean", "modelled", "xshards") if k in cs} |
                      {"cmds": cs["cmds"][:f["step"] + 1]}, "explanation": "the catalogue dumped from the real meta.Data after this command "
                      "sequence violates the C16 statement (%s) outside every known-finding signature" % f["kind"]})
    if ok and not impl and not oracle_unknown:
        best = max(first_bad.items(), key=lambda kv: kv[1][0])  # the variant that survived longest
        i, k = best[1]
        ck.broken.append("correspondence C16: no model variant (today's code / repaired) matches the implementation; "
                         "variant %s first differs on case %s at step %d" % (best[0], cases[i]["name"], k))
        ck.nofail_detail = {"kind": "correspondence", "case": {kk: cases[i][kk] for kk in ("name", "ptper", "sclean", "modelled", "xshards") if kk in cases[i]} |
                            {"cmds": cases[i]["cmds"][:k + 1]}, "step": k, "first_differences": {n: [cases[a]["name"], b] for n, (a, b) in first_bad.items()},
                            "explanation": "model and implementation states differ after this command; the direct oracle found no "
                            "violation of the statement outside the known findings"}
    for fid in (F_OVERLAP, F_DEFAULT, F_HALF, F_RENAME, F_PANIC, F_WRAP, F_CANCEL):
        if ck.match_finding(fid) and fid not in reported and not getattr(ck, "replay", None):
            ck.notes.append("open finding %s did not reproduce in this run (stale?)" % fid)

    ck.cov["evaluations"] = sum(len(c["cmds"]) for c in cases)
    ck.cov["cases"] = len(cases)
    ck.cov["distinct_nontrivial"] = len(nontriv)
    ck.cov["traces_validated_against_impl"] = validated
    ck.cov["rule"] = ("command sequences (8-29 commands) over 3 databases x 4 policies x 3 measurements, instants near a base date, at "
                      "group boundaries +-1ns, at the ends of the time domain and uniformly random; ~30% invalid commands; evaluation = "
                      "one command applied to the real catalogue, dumped and checked by the direct oracle; non-trivial = the case ends "
                      "with at least two shard groups in the catalogue; distinct = different command lists")
    ck.cov["command_histogram"] = hist
    # the guard of DeleteShardGroup(CancelDelete): its DECISION per command (the group was marked deleted before the command; live after
    # = accepted, still deleted = refused) is part of the compared state; both outcomes, and refusals owed to a live group that does
    # NOT contain the revived group's start, must occur in every run
    dec = {"accepted": 0, "refused": 0, "refused_by_group_not_covering_the_start": 0}
    def groups_of(dump):
        return {g["id"]: (g, db["key"], rp["key"]) for db in dump["dbs"] for rp in db["rps"] for g in rp["sgs"]}
    for cs in cases:
        for i, (c, r) in enumerate(zip(cs["cmds"], cs["res"])):
            if c["k"] == "delsg" and c.get("x") == "cancel" and r == 0 and i > 0:
                a, b = groups_of(cs["dumps"][i - 1]), groups_of(cs["dumps"][i])
                gid = c.get("id", 0)
                if gid in a and gid in b and a[gid][0]["deleted"]:
                    if b[gid][0]["deleted"]:
                        dec["refused"] += 1
                        g, dbk, rpk = a[gid]
                        live = [x for x, d2, r2 in a.values() if d2 == dbk and r2 == rpk and not x["deleted"] and x["eng"] == g["eng"]
                                and int(x["start"]) < int(g["end"]) and int(g["start"]) < int(x["end"])]
                        if live and not any(int(x["start"]) <= int(g["start"]) < int(x["end"]) for x in live):
                            dec["refused_by_group_not_covering_the_start"] += 1
                    else:
                        dec["accepted"] += 1
    ck.cov["cancel_delete_decisions"] = dec
    if not getattr(ck, "replay", None) and min(dec.values()) == 0:
        ck.broken.append("cancel-delete guard: an outcome was not exercised in this run: %s" % dec)
    dispatch_table(ck, hist)
    ck.cov["implementation_matches_variant"] = impl
    ck.cov["samples"] = [c["cmds"][:8] for c in cases[4:6]]
