"""C03 - compaction and out-of-order merge change no answer and are crash-atomic. See DESIGN.md section C03 and NOTES.md."""
import json
import os
import re
import vlib
from vlib import coq_n, coq_bool, coq_list, coq_z

PID = "C03"
TMP = ".init"      # the temporary-file suffix; main() replaces it by the value read from the source tree
DUMMY = {"case": -1, "op": "none", "images": [], "steps": [], "hist": "", "old": [], "new": [], "unord": [], "names": [], "fs0": []}


def fname(i, init):
    return "(%s, %s)" % (coq_n(i), coq_bool(init))


def step_coq(s):
    k = s["k"]
    if k == "logcreate":
        return "LogCreate"
    if k == "logsync":
        return "LogSync"
    if k == "logremove":
        return "LogRemove"
    if k == "logwrite":
        return "LogWrite %s %s" % (coq_list([coq_n(x) for x in s.get("old") or []]), coq_list([coq_n(x) for x in s.get("new") or []]))
    if k == "mv":
        return "Mv %s %s" % (fname(s["src"], s["srci"]), fname(s["dst"], s["dsti"]))
    if k == "rm":
        return "Rm %s" % fname(s["src"], s["srci"])
    raise ValueError(k)


def ents(es):
    return coq_list(["(%s, %s)" % (coq_n(e["id"]), coq_n(e["c"])) for e in es])


def image_coq(im, parent_rsteps):
    k = "None" if im["k"] < 0 else "(Some %d%%nat)" % im["k"]
    sub = "None" if im["sub"] < 0 else "(Some %d%%nat)" % im["sub"]
    rs = parent_rsteps if im["sub"] >= 0 else im["rsteps"]
    return "mkimg %s %s %s %d%%nat %s" % (k, sub, ents(im["vis"]), len(im["left"]), coq_list([step_coq(s) for s in rs]))


def modelable(inst):
    if inst.get("concurrent") or not inst.get("steps"):
        return False
    # replacements inside the out-of-order directory (merge-self, IsOrder=false) are compared with the model as well: file
    # ids are per directory, the log names ids of the out-of-order directory, recovery works on that directory (6935e28)
    for s in inst["steps"]:
        if s["k"] in ("other", "mkdir"):
            return False
    for im in inst["images"]:
        for s in im["rsteps"]:
            if s["k"] in ("other", "mkdir", "logcreate", "logwrite", "logsync"):
                return False
    return True


def case_coq(inst):
    fs0 = coq_list(["(%s, %s, %s)" % (coq_n(e["id"]), coq_bool(e["init"]), coq_n(e["c"])) for e in inst["fs0"]])
    imgs = []
    parent = []
    for im in inst["images"]:
        if im["sub"] < 0:
            parent = im["rsteps"]
        imgs.append(image_coq(im, parent))
    return "mkcase %s %s %s %s %s %s\n  %s" % (
        coq_list([coq_n(i) for i in range(len(inst["names"]))]), fs0,
        coq_list([coq_n(x) for x in inst["old"]]), coq_list([coq_n(x) for x in inst["new"]]),
        coq_list([coq_n(x) for x in inst["unord"]]),
        coq_list([step_coq(s) for s in inst["steps"]]), coq_list(imgs))


def coq_tuples(body, arity):
    """all tuples of `arity` numbers in the printed list `body`; None when some printed tuple could not be read.
    Coq's printer breaks lines anywhere - also right after an opening parenthesis - and adds scope suffixes (3%nat)."""
    flat = re.sub(r"%\w+", "", re.sub(r"\s+", "", body))
    tups = re.findall(r"\((-?\d+(?:,-?\d+){%d})\)" % (arity - 1), flat)
    if len(tups) != flat.count("("):
        return None
    return [tuple(int(x) for x in t.split(",")) for t in tups]


def eval_tuples(o, rc, arity):
    """the mismatch tuples printed for M by a scratch evaluation; None when it failed or could not be read completely"""
    m = re.search(r"M\s*=\s*(.*?)\s*:\s*list", o, re.S)
    return coq_tuples(m.group(1), arity) if rc == 0 and m else None


def canary_case(t):
    """a copy of the case text `t` in which the first non-empty listing of visible files of a crash image names another
    content for its first file (None when there is no such listing)"""
    m = re.search(r"(mkimg (?:None|\(Some \d+%nat\)) (?:None|\(Some \d+%nat\)) \[\(\d+%N, )(\d+)(%N\))", t)
    return t[:m.start(2)] + str(int(m.group(2)) + 7) + t[m.end(2):] if m else None


CODES = {1: "step list does not start with create/write/sync of the intent log", 2: "intent log names other files than the replaced/new ones",
         3: "steps between log sync and log removal are not exactly renames of the new files and deletions of the old files",
         4: "deletions after the log removal are not the out-of-order inputs in order", 5: "out-of-order inputs not deleted oldest first",
         6: "intent log never removed", 11: "old and new names overlap", 12: "an old file is missing at protocol start",
         13: "a new file is not an .init-only file at protocol start", 14: "universe", 15: "universe",
         21: "crash in write phase: visible files differ from the old set", 22: ".init left after restart (write phase)",
         31: "visible files after crash+restart differ from model recover", 32: ".init left after restart",
         33: "the recovery pass' mutations lead to another state than the model's recover",
         41: "visible files after double crash + restart differ from model recover", 42: ".init left after double crash + restart"}


def selflogdir_signature(inst, j, f):
    """intent log of an UNORDERED replacement (isOrder=false) is complete at the crash, the ordered directory holds a file
    with the base name of a new file of the log and a file with the base name of an old file of the log, and the failure
    is a changed answer"""
    if inst.get("isorder", True) or j is None or "answers changed" not in f:
        return False
    im = inst["images"][j]
    if im["k"] < 2:
        return False
    names = inst["names"]
    onames = {n[2:] for n in names if n.startswith("o/")}
    present_o = {names[e["id"]][2:] for e in inst["fs0"] if names[e["id"]].startswith("o/") and not e["init"]}
    new_hit = any(names[n][2:] in present_o for n in inst["new"])
    old_hit = any(names[o][2:] in present_o for o in inst["old"])
    return new_hit and old_hit and bool(onames)


def cells_coq(seg):
    return coq_list(["None" if v < 0 else "(Some %s)" % coq_z(v) for v in seg])


def chunk_coq(ch, fid):
    t = coq_list([coq_list([coq_z(x) for x in seg]) for seg in ch["t"]])
    cols = coq_list(["(%s, %s)" % (coq_n(fid[f]), coq_list([cells_coq(seg) for seg in segs])) for f, segs in sorted(ch["c"].items())])
    return "mkchunk %s %s" % (t, cols)


def colcase_coq(ci, ser):
    fid = {f: i for i, f in enumerate(ser["fields"])}
    return "mkcc %d%%nat %d%%nat %s %s %s" % (ci["maxrows"], ci.get("seglimit") or 0, coq_list([coq_n(i) for i in range(len(ser["fields"]))]),
                                      coq_list([chunk_coq(c, fid) for c in ser["in"]]),
                                      coq_list([chunk_coq(c, fid) for c in ser["out"] or []]))


def mergecase_coq(ci, ser):
    fid = {f: i for i, f in enumerate(ser["fields"])}
    return "mkmc %d%%nat %s %s %s %s" % (ci["maxrows"], coq_list([coq_n(i) for i in range(len(ser["fields"]))]),
                                         coq_list([chunk_coq(c, fid) for c in ser.get("in") or []]),
                                         coq_list([chunk_coq(c, fid) for c in ser.get("uin") or []]),
                                         coq_list([chunk_coq(c, fid) for c in ser.get("out") or []]))


MERGECODES = {70: "a column of a chunk has another number of rows than its time column",
              71: "input chunks of the series are not strictly ascending in time (premise of C03_merge_column_lww)",
              72: "a column of the series in the new ordered files differs from the model (MergeModel.merge_series: last-write-wins overlay of "
                  "the ordered chunks and the out-of-order files oldest first)",
              73: "a chunk written by the merge is not well-formed (segments of max-rows, the last one shorter)"}

COLCODES = {50: "an input chunk is not well-formed (inner segment shorter/longer than max-rows-per-segment, or a column segment of another length than its time segment)",
            51: "the series was not written into exactly one output chunk",
            52: "time segments written by the compaction differ from the model (ColModel.compact_col)",
            53: "a column's segments written by the compaction differ from the model (cells lost / shifted / padded differently)",
            54: "the output chunk has a column that no input chunk has", 55: "the output chunk is not well-formed",
            56: "segment limit: the time segments of the series in the output files differ from the model (ColLimModel.compact_col_lim: file "
                "boundaries, resume position or carried rows)",
            57: "segment limit: a column's segments in the output files differ from the model (cells lost / shifted at a file boundary)",
            58: "segment limit: an output file holds more segments of the series than max-segment-limit"}


# ---------- fault-injection cases ----------
FCODES = {60: "the fault-free run did not attempt exactly the canonical step list (log create/write/sync, renames of the new files, "
              "deletions of the old files, log removal, then the out-of-order inputs)",
          61: "files on disk after the failed operation differ from the model", 62: "intent-log state after the failed operation differs from the model",
          63: "LIVE file list after the failed operation differs from the model", 64: "files loaded after the restart differ from the model",
          65: "intent-log state after the restart differs from the model"}


def strip_init(n):
    return (n[:-len(TMP)], True) if n.endswith(TMP) else (n, False)


def fault_case_coq(fi):
    """-> (coq text, list of run indexes) or None when the operation replaced nothing"""
    runs = [r for r in fi["runs"] if r["kind"] in ("dry", "error")]
    dry = runs[0]
    if not dry.get("events"):
        return None
    names = set()
    for n in fi["start"]:
        names.add(strip_init(n)[0])
    for r in runs:
        for n in (r.get("disk") or []) + (r.get("live") or []) + (r.get("reopened") or []):
            names.add(strip_init(n)[0])
        for e in r.get("events") or []:
            if e["dir"] in ("o", "u"):
                names.add(strip_init(e["dir"] + "/" + e["name"])[0])
                if e.get("name2"):
                    names.add(strip_init(e["dir"] + "/" + e["name2"])[0])
    names = sorted(names)
    ids = {n: i for i, n in enumerate(names)}

    def ent(n):
        b, i = strip_init(n)
        return "(%s, %s)" % (coq_n(ids[b]), coq_bool(i))

    def nid(n):
        return coq_n(ids[strip_init(n)[0]])

    def ev_step(e, r):
        c = e["class"]
        if c == "logcreate":
            return "LogCreate"
        if c == "logsync":
            return "LogSync"
        if c == "logremove":
            return "LogRemove"
        if c == "logwrite":
            return "LogWrite %s %s" % (coq_list([nid(x) for x in r.get("logold") or []]), coq_list([nid(x) for x in r.get("lognew") or []]))
        if c == "rename":
            return "Mv %s %s" % (ent(e["dir"] + "/" + e["name"]), ent(e["dir"] + "/" + e["name2"]))
        if c == "remove":
            return "Rm %s" % ent(e["dir"] + "/" + e["name"])
        raise ValueError(c)
    # the out-of-order inputs retired after the log removal, in order (one or two mutations per input: removal / parking today,
    # parking then removal after fix5); the files a reader holds come from the harness, not from the observed mutations
    unord, seen_rm = [], False
    for e in dry["events"]:
        if e["class"] == "logremove":
            seen_rm = True
        elif seen_rm and e["class"] in ("remove", "rename"):
            n = strip_init(e["dir"] + "/" + e["name"])[0]
            if n not in unord:
                unord.append(n)
    inuse = [n for n in (fi.get("heldnames") or []) if strip_init(n)[0] in ids]
    fruns = []
    for r in runs:
        lo = r.get("logold") or dry.get("logold") or []
        ln = r.get("lognew") or dry.get("lognew") or []
        fruns.append("mkfrun %s %s %s %s %d%%nat %s %s %d%%nat" % (
            "None" if r["kind"] == "dry" else "(Some %d%%nat)" % r["at"],
            coq_list([nid(x) for x in lo]), coq_list([nid(x) for x in ln]),
            coq_list([ent(x) for x in sorted(r.get("disk") or [], key=lambda n: (ids[strip_init(n)[0]], strip_init(n)[1]))]),
            r.get("logs", 0), coq_list([nid(x) for x in r.get("live") or []]), coq_list([nid(x) for x in r.get("reopened") or []]),
            r.get("logs_reopened", 0)))
    # the state when the protocol starts: the files before the operation plus the new files written as .init
    start = list(fi["start"]) + [n + TMP for n in (dry.get("lognew") or [])]
    txt = "mkfcase %s %s %s %s\n  %s\n  %s" % (
        coq_list([coq_n(i) for i in range(len(names))]),
        coq_list([ent(x) for x in sorted(start, key=lambda n: (ids[strip_init(n)[0]], strip_init(n)[1]))]),
        coq_list([nid(x) for x in unord]), coq_list([nid(x) for x in inuse]),
        coq_list([ev_step(e, dry) for e in dry["events"]]), coq_list(fruns))
    return txt, runs


def delete_abort_signature(run):
    """an I/O error on removing / parking an OLD file inside the delete loop of ReplaceFiles (after the intent log was written and
    the new files were renamed, before the log is removed); the only failure is that the LIVE store lacks rows until restart"""
    f = run.get("failed") or {}
    if run.get("kind") != "error" or f.get("class") not in ("remove", "rename"):
        return False
    if f["class"] == "rename" and f.get("name2") != f["name"] + TMP:
        return False
    if any(e["class"] == "logremove" for e in run.get("events") or []):
        return False
    if (f.get("dir", "") + "/" + f["name"]) not in (run.get("logold") or []):
        return False
    return all(x.startswith("answers of the live store changed") for x in run.get("fail") or [])


VARIANT_FINDINGS = [(1, "C03-replace-delete-abort"), (2, "C03-unordered-delete-gap"), (4, "C03-stale-intent-log")]


def stale_log_signature(run):
    """the SYNC of the intent log fails (the replacement is given up, the complete log stays), the store lives on and runs another
    reorganisation, then restarts; the failure shows after the restart (rows twice in the ordered files, older values back)"""
    f = run.get("failed") or {}
    return run.get("kind") == "error-then" and f.get("class") == "logsync" and bool(run.get("then")) and \
        all(x.startswith("answers changed after restart") or x.startswith("ordered files not time-ordered") for x in run.get("fail") or [])


def unordered_gap_signature(run):
    """after a completed replacement (intent log removed) the removal of an out-of-order input that is NOT the newest input
    returns an I/O error while newer inputs are removed; the failure shows only after restart"""
    f = run.get("failed") or {}
    ev = run.get("events") or []
    if run.get("kind") != "error" or f.get("class") not in ("remove", "rename") or f.get("dir") != "u":
        return False
    if f["class"] == "rename" and f.get("name2") != f["name"] + TMP:
        return False    # only the parking of an input that a reader still holds
    k = run.get("at", -1)
    if not any(e["class"] == "logremove" for e in ev[:k]):
        return False
    later = [e for e in ev[k + 1:] if e["class"] in ("remove", "rename") and e["dir"] == "u"]
    return bool(later) and all(x.startswith("answers changed after restart") for x in run.get("fail") or [])


def stream_split_signature(ci):
    """streaming compaction (level / full) of a group in which the chunks of one series have, together, more segments than
    max-segment-limit, so that the series must be split over several output files"""
    return ci.get("seglimit", 0) > 0 and ci.get("op") in ("level0", "full") and ci.get("maxsegs", 0) > ci["seglimit"] \
        and ci.get("mode") == "stream"


def load_fragment_findings(ck):
    """ck.findings comes from the merged known_findings.json; entries of this property's own fragment that the orchestrator
    has not merged yet are added (read-only, by id) so that the check is self-contained"""
    frag = os.path.join(ck.verif, "props", PID, "findings.json")
    try:
        have = {f["id"] for f in ck.findings}
        for f in json.load(open(frag))["findings"]:
            if f.get("property") == PID and f["id"] not in have:
                ck.findings.append(f)
    except (OSError, ValueError, KeyError):
        pass


def pad_segment_signature(ci):
    """streaming compaction of ordered files in which some chunk has a non-final segment of another size than the current
    max-rows-per-segment (or a segment longer than it): files written before max-rows-per-segment was changed"""
    return bool(ci.get("illformed")) and ci.get("op") in ("level0", "full") and ci.get("mode") == "stream"


def source_constants(ck):
    """names and the intent-log magic the harness needs but the repository does not export: read from the source of the tree under
    check (fail closed: a constant that cannot be found is reported, never silently replaced by a copy)"""
    want = {"C03_LOG_MAGIC": ("engine/immutable/compaction_file_info.go", r'compLogMagic\s*=\s*\[\]byte\("([^"]+)"\)'),
            "C03_UNORDERED_DIR": ("engine/immutable/tssp_reader.go", r'\bunorderedDir\s*=\s*"([^"]+)"'),
            "C03_TMP_SUFFIX": ("engine/immutable/tssp_reader.go", r'\btmpFileSuffix\s*=\s*"([^"]+)"'),
            "C03_LOG_DIR": ("engine/immutable/tssp_reader.go", r'\bcompactLogDir\s*=\s*"([^"]+)"')}
    out = {}
    for k, (rel, rx) in want.items():
        try:
            m = re.search(rx, open(os.path.join(ck.repo, rel)).read())
        except OSError:
            m = None
        if not m:
            ck.broken.append("C03 translator: constant for %s not found in %s" % (k, rel))
        else:
            out[k] = m.group(1)
    return out


def main(ck):
    load_fragment_findings(ck)
    ck.assumptions += [
        "process-kill crash semantics: every completed write/rename/remove is visible after the crash, nothing else is lost "
        "(no power loss; the OS honours rename atomicity); the torn last write of the intent log is any byte prefix",
        "a strict prefix of the intent-log write is classified dirty by readCompactLogFile (exercised on the real code for "
        "sampled prefix lengths in quick, every prefix length in thorough); measurement names containing the magic string are not generated",
        "logical contents are read at file level through the repository's ChunkIterator with precedence ordered files by "
        "sequence then out-of-order files by sequence, per field (the cursor-level read path is C02's obligation)",
        "one replacement at a time is compared with the model; operations in which two compaction plans interleave are "
        "checked by the direct oracle only",
        "an injected I/O error means: the file-system mutation did not happen and an error was returned (a failed intent-log write "
        "leaves an empty, i.e. dirty, log file); stops are injected with DisableCompAndMerge from another goroutine",
        "column model: no max-segment-limit split and no file-size split (not reached by the generated sizes outside the seglimit "
        "cases, which are judged by the direct oracle only); the out-of-order merge is judged by the direct oracle only at column level",
    ]
    ck.cov["trusted_base"] = ["Coq 8.16.1 kernel + vm_compute (cases evaluation, Examples, refuted-mutant witnesses)",
                              "no axioms (Print Assumptions: closed)",
                              "Go harness cmd/c03 (crash, column, fault cases; fault-injecting VFS; one child process per column case) + "
                              "internal/crashfs (recording VFS, image copy), python driver props/C03/run.py",
                              "hooks lib/fileops/verif_export_c03.go (VerifSwapLocalFS), engine/immutable/verif_export_c09.go (stored counts)"]
    ck.log("phase: start")
    ck.coq_audit(["C03"])
    ok = ck.coq_build(["C03/Proofs.vo", "C03/Corr.vo", "C03/ColProofs.vo", "C03/ColCorr.vo", "C03/ColLimProofs.vo", "C03/MergeProofs.vo", "C03/MergeCorr.vo",
                       "C03/FaultProofs.vo", "C03/FaultCorr.vo"])
    if ok:
        ck.coq_props(["C03/Props.v", "C03/Refuted.v"])
    ck.log("phase: coq built and property theorems re-checked")
    consts = source_constants(ck)
    global TMP
    TMP = consts.get("C03_TMP_SUFFIX", TMP)
    ck.cov["constants_read_from_source"] = consts
    _run = ck.run
    ck.run = lambda cmd, timeout=900, env=None, **kw: _run(cmd, timeout=timeout, env=dict(consts, **(env or {})), **kw)
    binp = ck.go_build("./cmd/c03", "c03")
    ck.log("phase: harness built")
    if not binp:
        return
    n = 24 if ck.tier == "quick" else 120    # thorough: every torn prefix and every recovery sub-image, ~10 s per case
    ncol, nseg = (60, 16) if ck.tier == "quick" else (1500, 300)
    nfault = 12 if ck.tier == "quick" else 150
    nchg = 16 if ck.tier == "quick" else 300
    ncur = 10 if ck.tier == "quick" else 120
    if ck.replay:
        rp = json.load(open(ck.replay))
        rc, out = ck.run([binp, str(int(rp.get("case", 0)) + 1)], timeout=3000, env={"VERIF_SEED": str(rp.get("seed", ck.seed)),
                                                                                 "VERIF_TIER": rp.get("tier", ck.tier)})
        insts = [json.loads(l) for l in out.splitlines() if l.startswith('{"case"')]
        insts = [i for i in insts if i["case"] == rp.get("case")]
        cols, faults, curs = [], [], []
        if rp.get("curcase") is not None:
            cn = int(rp["curcase"])
            rc, out = ck.run([binp, "0", "0", "0", "0", "0", str(cn + 1)], timeout=3000, env={"VERIF_SEED": str(rp.get("seed", ck.seed)), "VERIF_TIER": rp.get("tier", ck.tier)})
            curs = [json.loads(l) for l in out.splitlines() if l.startswith('{"curcase"')]
            curs = [c for c in curs if c["curcase"] in (cn, -1)]
            insts = insts or [dict(DUMMY)]
        if rp.get("faultcase") is not None:
            fcn = int(rp["faultcase"])
            rc, out = ck.run([binp, "0", "0", "0", str(fcn + 1)], timeout=3000, env={"VERIF_SEED": str(rp.get("seed", ck.seed)), "VERIF_TIER": rp.get("tier", ck.tier)})
            faults = [json.loads(l) for l in out.splitlines() if l.startswith('{"faultcase"')]
            faults = [f for f in faults if f["faultcase"] == fcn]
            insts = insts or [dict(DUMMY)]
        if rp.get("colcase") is not None:
            cc = int(rp["colcase"])
            a = [binp, "0", str(cc + 1), "0"] if cc < 100000 else ([binp, "0", "0", str(cc - 100000 + 1)] if cc < 200000 else
                                                                   [binp, "0", "0", "0", "0", str(cc - 200000 + 1)])
            rc, out = ck.run(a, timeout=3000, env={"VERIF_SEED": str(rp.get("seed", ck.seed)), "VERIF_TIER": rp.get("tier", ck.tier)})
            cols = [json.loads(l) for l in out.splitlines() if l.startswith('{"colcase"')]
            cols = [c for c in cols if c["colcase"] == cc]
            insts = insts or [dict(DUMMY)]
    else:
        # the independent parts of the harness run as parallel processes (each part has its own PRNG stream of the seed; the
        # crash cases are split by index range, every case keeps its input)
        from concurrent.futures import ThreadPoolExecutor
        half = n // 2
        jobs = [([binp, str(n), "0", "0", "0", "0", "0"], {"C03_CASE_RANGE": "0:%d" % half}),
                ([binp, str(n), "0", "0", "0", "0", "0"], {"C03_CASE_RANGE": "%d:%d" % (half, n)}),
                ([binp, "0", str(ncol), str(nseg), "0", str(nchg), "0"], {}),
                ([binp, "0", "0", "0", str(nfault), "0", str(ncur)], {})]
        with ThreadPoolExecutor(max_workers=len(jobs)) as ex:
            results = list(ex.map(lambda j: ck.run(j[0], timeout=5400, env=j[1]), jobs))
        rc = max(abs(r[0]) for r in results)
        out = "\n".join(r[1] for r in results)
        if any("c03 done" not in r[1] for r in results):
            out = out.replace("c03 done", "c03 part done")      # one part died: the whole run counts as crashed
        insts = [json.loads(l) for l in out.splitlines() if l.startswith('{"case"')]
        cols = [json.loads(l) for l in out.splitlines() if l.startswith('{"colcase"')]
        faults = [json.loads(l) for l in out.splitlines() if l.startswith('{"faultcase"')]
        curs = [json.loads(l) for l in out.splitlines() if l.startswith('{"curcase"')]
    ck.log("phase: harness run")
    crashed = rc != 0 or "c03 done" not in out
    if crashed:
        # the real code panicked / the harness died: still apply the direct oracle to what was observed before
        ck.broken.append("harness c03 failed rc=%d: %s" % (rc, out[-600:]))
    if not insts:
        ck.broken.append("harness c03 produced no protocol instance")
        return
    # ---- direct oracle verdicts (on the implementation) ----
    nimg = 0
    oracle = []
    for inst in insts:
        for f in inst.get("fail") or []:
            oracle.append((inst, None, f))
        for j, im in enumerate(inst.get("images") or []):
            nimg += 1
            for f in im.get("fail") or []:
                oracle.append((inst, j, f))
    rest = []
    for inst, j, f in oracle:
        if selflogdir_signature(inst, j, f) and ck.match_finding("C03-selflogdir"):
            ck.known_finding("C03-selflogdir", "rows of an ordered file are lost after a crash during an out-of-order merge-self replacement "
                                               "(start-up processes the intent log in the ordered directory)")
        else:
            rest.append((inst, j, f))
    oracle = rest
    for inst, j, f in oracle[:3]:
        im = inst["images"][j] if j is not None else None
        ck.violation({"kind": "direct-oracle", "what": f, "case": inst["case"], "op": inst["op"], "history": inst["hist"],
                      "crash": None if im is None else {"steps_applied": im["k"], "torn_log_bytes": im["torn"], "recovery_mutations_before_second_crash": im["sub"]},
                      "steps": inst.get("steps"), "names": inst.get("names"), "old": inst.get("old"), "new": inst.get("new")})
    # ---- column-level cases: direct oracle ----
    col_known = 0
    col_died_known = 0
    col_viol = 0
    for ci in cols:
        sig = stream_split_signature(ci)
        sig2 = pad_segment_signature(ci)
        for f in ci.get("fail") or []:
            if sig and ck.match_finding("C03-stream-split"):
                ck.known_finding("C03-stream-split", "streaming compaction of a series with more segments than max-segment-limit "
                                                     "loses / corrupts rows of the series (the chunk must be split over several files)")
                col_known += 1
            elif sig2 and ck.match_finding("C03-pad-segment-size"):
                ck.known_finding("C03-pad-segment-size", "streaming compaction of files written under another max-rows-per-segment pads an "
                                                         "absent column with the wrong number of nils (values shift to other timestamps)")
                col_known += 1
            elif col_viol < 3:
                col_viol += 1
                ck.violation({"kind": "direct-oracle", "what": f, "colcase": ci["colcase"], "op": ci["op"], "mode": ci["mode"],
                              "max_rows_per_segment": ci["maxrows"], "max_segment_limit": ci["seglimit"], "history": ci["hist"],
                              "process_died": ci.get("died"), "panic": ci.get("panic"),
                              "explanation": "history: O<seq>/U<seq>(s<series>:<rows>:<fields present in the chunk>) = ordered / out-of-order file, then the operations"})
            break
        sig = sig or sig2
        if ci.get("died") and not ci.get("fail"):
            # a process death on files written under another max-rows-per-segment (segments longer than the limit make the
            # streaming compactor and the merge column writer panic) is an observation as long as the crash oracle holds
            if sig or ci.get("illformed"):
                col_died_known += 1      # observation (see NOTES): the process dies, the files are untouched after restart
            else:
                ck.broken.append("compaction / merge died (%s) in column case %d op %s [%s]; the model (ColModel.compact_col) "
                                 "says it completes" % (ci.get("panic"), ci["colcase"], ci["op"], ci["hist"]))
        elif ci.get("abandoned") and not ci.get("fail") and not sig:
            ck.broken.append("compaction / merge gave up without replacing files in column case %d op %s [%s]" % (ci["colcase"], ci["op"], ci["hist"]))
    # ---- cursor-level cases: direct oracle ----
    cur_viol = 0
    for cu in curs:
        if cu.get("fail") and cur_viol < 3:
            cur_viol += 1
            ck.violation({"kind": "direct-oracle", "what": cu["fail"][0], "all": cu["fail"][:4], "curcase": cu["curcase"], "op": cu["op"],
                          "history": cu.get("hist"), "explanation": "a real shard (index, WAL, memtable flushes) read through shard.CreateCursor before the "
                          "operation, after it, and after re-opening a copy of the shard directory frozen between two file-system mutations"})
    # ---- fault-injection cases: direct oracle ----
    f_known = 0
    f_viol = 0
    nfruns = 0
    for fi in faults:
        for r in fi.get("runs") or []:
            nfruns += 1
            if not r.get("fail"):
                continue
            if delete_abort_signature(r) and ck.match_finding("C03-replace-delete-abort"):
                ck.known_finding("C03-replace-delete-abort", "an I/O error while ReplaceFiles deletes the old files leaves the live store "
                                                             "without the rows of the files handled so far (until restart)")
                f_known += 1
            elif stale_log_signature(r) and ck.match_finding("C03-stale-intent-log"):
                ck.known_finding("C03-stale-intent-log", "a failed sync of the intent log leaves the complete log behind; the store reorganises "
                                                         "again and the next start-up rolls the stale log forward (rows twice, older values back)")
                f_known += 1
            elif unordered_gap_signature(r) and ck.match_finding("C03-unordered-delete-gap"):
                ck.known_finding("C03-unordered-delete-gap", "an I/O error on removing an older out-of-order input after a merge, while newer "
                                                             "inputs are removed, lets the older rows win after restart")
                f_known += 1
            elif f_viol < 3:
                f_viol += 1
                ck.violation({"kind": "direct-oracle", "what": r["fail"][0], "all": r["fail"][:4], "faultcase": fi["faultcase"], "op": fi["op"],
                              "history": fi["hist"], "injection": r["kind"], "at_protocol_mutation": r["at"], "failed_mutation": r.get("failed"),
                              "attempted": r.get("events"), "files_before": fi["start"], "files_after": r.get("disk"), "live_after": r.get("live"),
                              "held_by_reader": fi.get("held")})
    if crashed:
        ck.cov["evaluations"] = nimg
        return
    # ---- model evaluation ----
    mod = [i for i in insts if modelable(i)]
    shard = 6
    files = []
    for i in range(0, len(mod), shard):
        chunk = mod[i:i + shard]
        txt = ("From Coq Require Import NArith ZArith List Bool. From OG Require Import C03.Model C03.Corr.\n"
               "Import ListNotations. Open Scope N_scope.\n"
               "Definition cases : list ccase := [\n%s\n].\n"
               "Definition M := Eval vm_compute in mismatches cases.\nPrint M.\n") % ";\n".join(case_coq(t) for t in chunk)
        files.append(("c03cases%d" % (i // shard), txt))
    # canary: 20 copies of a protocol instance with one observed crash image changed MUST all be reported (20: the printed
    # list is then wrapped over several lines, also right after an opening parenthesis, as real results are)
    NCAN = 20
    canary = next((x for x in (canary_case(case_coq(t)) for t in mod) if x), None) if ok else None
    if canary:
        files.append(("c03canary", "From Coq Require Import NArith ZArith List Bool. From OG Require Import C03.Model C03.Corr.\n"
                      "Import ListNotations. Open Scope N_scope.\n"
                      "Definition cases : list ccase := [\n%s\n].\n"
                      "Definition M := Eval vm_compute in mismatches cases.\nPrint M.\n" % ";\n".join([canary] * NCAN)))
    # ---- column-level model evaluation (compactions outside the segment-limit cases) ----
    colmod = []
    mergemod = []
    for ci in cols:
        if ci.get("died") or ci.get("fail"):
            continue
        if ci["op"] == "merge":
            if not ci.get("illformed"):
                mergemod.extend((ci, ser) for ser in ci.get("series") or [] if ser.get("out"))
            continue
        if ci.get("illformed") and ci.get("mode") != "stream":
            continue    # the non-streaming path re-cuts every record; the code-shaped model is the streaming compactor
        for ser in ci.get("series") or []:
            if ser.get("in"):
                colmod.append((ci, ser))
    cshard = 40
    cfiles = []
    for i in range(0, len(colmod), cshard):
        chunk = colmod[i:i + cshard]
        txt = ("From Coq Require Import NArith ZArith List Bool. From OG Require Import C03.ColModel C03.ColCorr.\n"
               "Import ListNotations. Open Scope N_scope.\n"
               "Definition cases : list colcase := [\n%s\n].\n"
               "Definition M := Eval vm_compute in col_mismatches cases.\nPrint M.\n") % ";\n".join(colcase_coq(a, b) for a, b in chunk)
        cfiles.append(("c03col%d" % (i // cshard), txt))
    # canaries (fail closed): copies of a real case with one observed time value changed MUST all come back as mismatches -
    # one canary for the plain comparison, one for the segment-limit comparison
    import copy
    NCAN2 = 12
    ncanary = 0
    for want_limit in (False, True):
        src = next(((a, b) for a, b in colmod if bool(a.get("seglimit")) == want_limit and b.get("out") and b["out"][0]["t"]
                    and b["out"][0]["t"][0]), None)
        if src is None:
            if ok and colmod and not ck.replay and (not want_limit or nseg > 0):
                ck.broken.append("C03 column canary: no %s case to build the corrupted copy from" % ("segment-limit" if want_limit else "plain"))
            continue
        bad = copy.deepcopy(src[1])
        bad["out"][0]["t"][0][0] += 1
        cfiles.append(("c03colcanary%d" % ncanary,
                       ("From Coq Require Import NArith ZArith List Bool. From OG Require Import C03.ColModel C03.ColCorr.\n"
                        "Import ListNotations. Open Scope N_scope.\n"
                        "Definition cases : list colcase := [\n%s\n].\n"
                        "Definition M := Eval vm_compute in col_mismatches cases.\nPrint M.\n") % ";\n".join([colcase_coq(src[0], bad)] * NCAN2)))
        ncanary += 1
    # ---- out-of-order merge at column level ----
    mshard = 40
    mfiles = []
    MHDR = ("From Coq Require Import NArith ZArith List Bool. From OG Require Import C03.ColModel C03.ColCorr C03.MergeCorr.\n"
            "Import ListNotations. Open Scope N_scope.\n"
            "Definition cases : list mergecase := [\n%s\n].\n"
            "Definition M := Eval vm_compute in merge_mismatches cases.\nPrint M.\n")
    for i in range(0, len(mergemod), mshard):
        mfiles.append(("c03merge%d" % (i // mshard), MHDR % ";\n".join(mergecase_coq(a, b) for a, b in mergemod[i:i + mshard])))
    mcan = next(((a, b) for a, b in mergemod if b["out"][0]["t"] and b["out"][0]["t"][0] and b.get("uin")), None)
    if mcan is not None:
        badm = copy.deepcopy(mcan[1])
        badm["out"][0]["t"][0][0] -= 1      # a row of the merged series at another time than any input row
        mfiles.append(("c03mergecanary", MHDR % ";\n".join([mergecase_coq(mcan[0], badm)] * NCAN2)))
    elif ok and mergemod and not ck.replay:
        ck.broken.append("C03 merge canary: no merge case to build the corrupted copy from")
    # ---- fault model evaluation ----
    fmod = []
    for fi in faults:
        t = fault_case_coq(fi)
        if t:
            fmod.append((fi, t[0], t[1]))
    fshard = 8
    ffiles = []
    for i in range(0, len(fmod), fshard):
        chunk = fmod[i:i + fshard]
        txt = ("From Coq Require Import NArith ZArith List Bool. From OG Require Import C03.Model C03.FaultModel C03.FaultCorr.\n"
               "Import ListNotations. Open Scope N_scope.\n"
               "Definition cases : list fcase := [\n%s\n].\n"
               "Definition M := Eval vm_compute in fmismatches cases.\nPrint M.\n") % ";\n".join(t for _, t, _ in chunk)
        ffiles.append(("c03fault%d" % (i // fshard), txt))
    # canary (fail closed): copies of a fault case whose fault-free run reports a shortened live list MUST all be reported
    fcanary = False
    fsrc = next((fi for fi, _, _ in fmod if (fi["runs"][0].get("live") or [])), None)
    if fsrc is not None:
        badf = copy.deepcopy(fsrc)
        badf["runs"][0]["live"] = badf["runs"][0]["live"][1:]
        t = fault_case_coq(badf)
        if t:
            fcanary = True
            ffiles.append(("c03faultcanary", ("From Coq Require Import NArith ZArith List Bool. From OG Require Import C03.Model C03.FaultModel C03.FaultCorr.\n"
                                              "Import ListNotations. Open Scope N_scope.\n"
                                              "Definition cases : list fcase := [\n%s\n].\n"
                                              "Definition M := Eval vm_compute in fmismatches cases.\nPrint M.\n") % ";\n".join([t[0]] * NCAN2)))
    if ok and fmod and not fcanary and not ck.replay:
        ck.broken.append("C03 fault canary: no fault case to build the corrupted copy from")
    ck.log("phase: cases translated")
    # ---- one parallel batch for all scratch evaluations ----
    allfiles = files + cfiles + mfiles + ffiles
    allres = ck.coq_eval_many(allfiles) if ok and allfiles else []
    if ok and len(allres) != len(allfiles):
        ck.broken.append("model evaluations: %d results for %d scratch files" % (len(allres), len(allfiles)))
        allres = []
    if allres:
        res = allres[:len(files)]
        cres = allres[len(files):len(files) + len(cfiles)]
        mres = allres[len(files) + len(cfiles):len(files) + len(cfiles) + len(mfiles)]
        fres = allres[len(files) + len(cfiles) + len(mfiles):]
    else:
        res, cres, mres, fres = [], [], [], []
        if ok and allfiles:
            ck.broken.append("model evaluations were not run")
    ck.log("phase: model evaluations done (%d scratch files)" % len(allfiles))
    # ---- results: crash cases ----
    if canary and res:
        rc2, o = res.pop()
        tups = eval_tuples(o, rc2, 3)
        if tups is None or {t[0] for t in tups} != set(range(NCAN)):
            ck.broken.append("C03 canary: a corrupted case was not reported by the model evaluation (%d copies of a protocol instance "
                             "with one changed crash image; read back: %s)" % (NCAN, o[-300:] if tups is None else sorted(tups)[:NCAN]))
    elif ok and mod and not ck.replay and not canary:
        ck.broken.append("C03 canary: no protocol instance with a non-empty crash image to build the corrupted case from")
    mism = []
    for idx, (rc2, o) in enumerate(res):
        tups = eval_tuples(o, rc2, 3)
        if tups is None:
            ck.broken.append("model evaluation failed on shard %d: %s" % (idx, o[-400:]))
            continue
        for a, b, c in tups:
            mism.append((mod[idx * shard + a], b, c))
    # ---- results: column cases ----
    if ok and cfiles and len(cres) != len(cfiles):
        ck.broken.append("column model evaluation: %d results for %d files" % (len(cres), len(cfiles)))
    for _ in range(ncanary if len(cres) == len(cfiles) else 0):
        rc2, o = cres.pop()
        tups = eval_tuples(o, rc2, 3)
        if tups is None or {t[0] for t in tups} != set(range(NCAN2)):
            ck.broken.append("C03 column canary: a corrupted case was not reported by the column model evaluation (read back: %s)"
                             % (o[-300:] if tups is None else sorted(tups)[:NCAN2]))
    colmism = []
    col_current = 0
    for idx, (rc2, o) in enumerate(cres):
        tups = eval_tuples(o, rc2, 3)
        if tups is None:
            ck.broken.append("column model evaluation failed on shard %d: %s" % (idx, o[-400:]))
            continue
        for a, b, c in tups:
            ci, ser = colmod[idx * cshard + a]
            if c == 0 and pad_segment_signature(ci) and ck.match_finding("C03-pad-segment-size"):
                col_current += 1     # the tree pads by counter arithmetic (today's code) on a distinguishing input
            else:
                colmism.append(((ci, ser), b))
    if colmism and not oracle and not col_viol:
        (ci, ser), code = colmism[0]
        ck.broken.append("correspondence C03 column model/implementation differs: column case %d op %s series %d: %s" % (
            ci["colcase"], ci["op"], ser["sid"], COLCODES.get(code, str(code))))
        ck.nofail_detail = {"kind": "column-correspondence", "code": code, "meaning": COLCODES.get(code, ""), "colcase": ci["colcase"],
                            "op": ci["op"], "mode": ci["mode"], "history": ci["hist"], "series": ser}
    # ---- results: merge cases ----
    mmism = []
    if ok and mfiles and len(mres) != len(mfiles):
        ck.broken.append("merge model evaluation: %d results for %d files" % (len(mres), len(mfiles)))
    else:
        if mcan is not None and mres:
            rc2, o = mres.pop()
            tups = eval_tuples(o, rc2, 2)
            if tups is None or {t[0] for t in tups} != set(range(NCAN2)):
                ck.broken.append("C03 merge canary: a corrupted case was not reported by the merge model evaluation (read back: %s)"
                                 % (o[-300:] if tups is None else sorted(tups)[:NCAN2]))
        for idx, (rc2, o) in enumerate(mres):
            tups = eval_tuples(o, rc2, 2)
            if tups is None:
                ck.broken.append("merge model evaluation failed on shard %d: %s" % (idx, o[-400:]))
                continue
            for a, b in tups:
                mmism.append((mergemod[idx * mshard + a], b))
    if mmism and not oracle and not col_viol:
        (ci, ser), code = mmism[0]
        ck.broken.append("correspondence C03 merge model/implementation differs: column case %d series %d: %s" % (
            ci["colcase"], ser["sid"], MERGECODES.get(code, str(code))))
        ck.nofail_detail = {"kind": "merge-correspondence", "code": code, "meaning": MERGECODES.get(code, ""), "colcase": ci["colcase"],
                            "mode": ci["mode"], "history": ci["hist"], "series": ser}
    # ---- results: fault cases ----
    if ok and ffiles and len(fres) != len(ffiles):
        ck.broken.append("fault model evaluation: %d results for %d files" % (len(fres), len(ffiles)))
        fcanary = False
    if fcanary:
        rc2, o = fres.pop()
        tups = eval_tuples(o, rc2, 4)
        if tups is None or {t[0] for t in tups} != set(range(NCAN2)):
            ck.broken.append("C03 fault canary: a corrupted case was not reported by the fault model evaluation (read back: %s)"
                             % (o[-300:] if tups is None else sorted(tups)[:NCAN2]))
    fmism = []
    f_variant = {}
    for idx, (rc2, o) in enumerate(fres):
        tups = eval_tuples(o, rc2, 4)
        if tups is None:
            ck.broken.append("fault model evaluation failed on shard %d: %s" % (idx, o[-400:]))
            continue
        for a, b, c, mask in tups:
            fi, _, runs = fmod[idx * fshard + a]
            if c == 60:
                fmism.append((fi, runs[0], c))
                continue
            # the variant combinations that explain the run (bit k of mask; k = 1*delete-loop + 2*unordered-deletion + 4*failed-log,
            # each 1 = the unrepaired code); a run is accepted if one of them uses unrepaired parts only for OPEN findings
            accepted = False
            for k in range(1, 8):
                if mask >> k & 1 and all(ck.match_finding(fid) for bit, fid in VARIANT_FINDINGS if k & bit):
                    accepted = True
                    for bit, fid in VARIANT_FINDINGS:
                        if k & bit:
                            f_variant[fid] = f_variant.get(fid, 0) + 1
                    break
            if not accepted:
                fmism.append((fi, runs[b], c))
    if fmism and not oracle and not col_viol and not f_viol and not cur_viol:
        fi, r, code = fmism[0]
        ck.broken.append("correspondence C03 fault model/implementation differs: fault case %d op %s %s at %s: %s" % (
            fi["faultcase"], fi["op"], r["kind"], r["at"], FCODES.get(code, str(code))))
        ck.nofail_detail = {"kind": "fault-correspondence", "code": code, "meaning": FCODES.get(code, ""), "faultcase": fi["faultcase"], "op": fi["op"],
                            "history": fi["hist"], "run": r, "files_before": fi["start"]}
    # ---- coverage ----
    nontriv = set()
    hist = {}
    crashk = {}
    for inst in insts:
        hist[inst["op"]] = hist.get(inst["op"], 0) + 1
        if inst.get("nontrivial"):
            nontriv.add(json.dumps([inst["op"], inst.get("names"), inst.get("old"), inst.get("new"), inst.get("unord"), inst.get("fs0")], sort_keys=True))
        for im in inst.get("images") or []:
            key = "write-phase" if im["k"] < 0 else ("torn-log" if im["torn"] >= 0 else "protocol-step")
            key += "+recovery-crash" if im["sub"] >= 0 else ""
            crashk[key] = crashk.get(key, 0) + 1
    colhist = {}
    col_nontriv = set()
    for ci in cols:
        k = "%s/%s%s%s" % (ci["op"], ci["mode"], "/seglimit" if ci.get("seglimit") else "", "/segchange" if ci.get("segchange") else "")
        colhist[k] = colhist.get(k, 0) + 1
    for ci, ser in colmod:
        multi = any(len(c["t"]) > 1 and any(f not in c["c"] for f in ser["fields"]) for c in ser["in"])
        if multi:
            col_nontriv.add(json.dumps(ser, sort_keys=True))
    fhist = {}
    for fi in faults:
        for r in fi.get("runs") or []:
            k = r["kind"] + ("/" + (r.get("failed") or {}).get("class", "-") if r["kind"] == "error" else "")
            fhist[k] = fhist.get(k, 0) + 1
    ck.cov["fault_cases"] = {"cases": len(faults), "runs": nfruns, "histogram": fhist, "cases_compared_with_fault_model": len(fmod),
                             "model_mismatches": len(fmism), "runs_explained_only_by_an_unrepaired_variant": f_variant,
                             "known_finding_failures": f_known}
    nimg += nfruns
    ck.cov["cursor_cases"] = {"cases": len(curs), "crash_images_read_through_cursors": sum(c.get("images", 0) for c in curs),
                              "operations": {o: len([c for c in curs if c["op"] == o]) for o in sorted({c["op"] for c in curs})},
                              "wal_bytes_at_operation_start": sum(c.get("walbytes", 0) for c in curs)}
    nimg += sum(c.get("images", 0) for c in curs)
    ck.cov["evaluations"] = nimg + len(cols)
    ck.cov["distinct_nontrivial"] = len(nontriv) + len(col_nontriv)
    ck.cov["column_cases"] = {"operations": len(cols), "histogram": colhist, "series_compared_with_column_model": len(colmod),
                              "series_with_a_multi_segment_chunk_lacking_a_column": len(col_nontriv),
                              "series_split_over_several_files_compared_with_limit_model": len([1 for a, b in colmod if a.get("seglimit") and len(b.get("out") or []) > 1]),
                              "merged_series_compared_with_merge_model": len(mergemod), "merge_model_mismatches": len(mmism),
                              "process_deaths": len([c for c in cols if c.get("died")]),
                              "process_deaths_repeated_when_the_operation_was_retried_after_restart":
                                  len([c for c in cols if (c.get("again") or "").startswith("died again")]),
                              "model_mismatches": len(colmism), "series_matching_counter_padding_only": col_current,
                              "known_finding_failures": col_known,
                              "process_deaths_inside_known_finding_signature": col_died_known}
    ck.cov["traces_validated_against_impl"] = (sum(len(i["images"]) for i in mod) - len([m for m in mism if m[2] >= 20])) if ok else 0
    ck.cov["rule"] = ("evaluation = one crash image (copy of the shard directory taken between two file-system mutations of a real "
                      "compaction / merge, or with a torn intent-log write, or during the recovery pass of such an image) re-opened "
                      "with the real loader; non-trivial protocol instance = replaces >= 2 old files and has >= 6 protocol steps; "
                      "distinct = different (operation, file names, old/new/out-of-order sets, start listing); column cases: evaluation = "
                      "one compaction / merge of generated files (boundary row counts, absent columns) judged by the dump oracle live and "
                      "after reopen; non-trivial = a series whose inputs hold a multi-segment chunk lacking a column, layout compared with "
                      "the Coq column model")
    ck.cov["protocol_instances"] = len(insts)
    ck.cov["instances_compared_with_model"] = len(mod)
    ck.cov["instances_oracle_only_concurrent"] = len(insts) - len(mod)
    ck.cov["operation_histogram"] = hist
    ck.cov["crash_point_histogram"] = crashk
    ck.cov["samples"] = [{"op": i["op"], "history": i["hist"], "old": i["old"], "new": i["new"], "unord": i["unord"],
                          "steps": [s["k"] for s in i["steps"]], "images": len(i["images"])} for i in insts[:3]]
    if mism and not oracle:
        inst, j, code = mism[0]
        ck.broken.append("correspondence C03 model/implementation differs: case %d op %s image %d: %s" % (
            inst["case"], inst["op"], j, CODES.get(code, str(code))))
        ck.nofail_detail = {"kind": "correspondence", "code": code, "meaning": CODES.get(code, ""), "case": inst["case"], "op": inst["op"],
                            "explanation": "the recorded protocol steps or the files visible after crash + restart differ from the Coq "
                                           "model (C03_crash_atomic no longer transfers); the direct oracle (dump before = dump after "
                                           "crash + reopen, no .init visible) found no failing input",
                            "steps": inst["steps"], "names": inst["names"], "old": inst["old"], "new": inst["new"], "unord": inst["unord"],
                            "image": inst["images"][j] if code >= 20 and j < len(inst["images"]) else None}
