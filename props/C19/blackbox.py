"""C19 black-box harness: ts-server with authentication on, the credential matrix and the direct oracle.

Process hygiene: the server is started in its own session; only that PID / process group is ever signalled.
Ports come from 21900-21999 only; all data and logs live under ck.work.
"""
import base64
import hashlib
import hmac
import http.client
import json
import os
import signal
import socket
import subprocess
import time
import urllib.parse

SECRET = "c19-shared-secret"
ADMIN = ("root", "Admin#Pw1234x")
USERS = {
    # name: (password, admin, {db: priv})
    "root": (ADMIN[1], True, {}),
    "rouser": ("Ro#Pw12345xy", False, {"db1": "READ"}),
    "wouser": ("Wo#Pw12345xy", False, {"db1": "WRITE"}),
    "otheruser": ("Ot#Pw12345xy", False, {"db2": "ALL"}),
    "lockuser": ("Lk#Pw12345xy", False, {"db1": "READ"}),
    "grantee": ("Gr#Pw12345xy", False, {}),
    "pwuser": ("Pw#Pw12345xy", False, {}),
    "dropme": ("Dr#Pw12345xy", False, {}),
    "all1user": ("Al#Pw12345xy", False, {"db1": "ALL"}),
    "rwacct": ("Rw#Pw12345xy", False, {}),
}
# accounts created WITH PARTITION PRIVILEGES (UserInfo.Rwuser): every per-database check passes, never an administrator
RWUSERS = ("rwacct",)
MARK = {"db1": "c19secretmarker1", "db2": "c19secretmarker2"}
CLASS_USER = {"ro": "rouser", "wo": "wouser", "other": "otheruser", "admin": "root"}
# classes used only by the statement matrix / selected groups (not multiplied over every route and transport)
EXTRA_CLASS_USER = {"all1": "all1user", "rw": "rwacct"}
INVALID = ("none", "malformed", "unknown", "wrongpw")


def b64url(b):
    return base64.urlsafe_b64encode(b).rstrip(b"=").decode()


def jwt(claims, secret=SECRET, alg="HS256"):
    h = b64url(json.dumps({"alg": alg, "typ": "JWT"}, separators=(",", ":")).encode())
    p = b64url(json.dumps(claims, separators=(",", ":")).encode())
    if alg == "none":
        return h + "." + p + "."
    sig = hmac.new(secret.encode(), (h + "." + p).encode(), hashlib.sha256).digest()
    return h + "." + p + "." + b64url(sig)


PORT_LO, PORT_HI, PORT_BLOCK = 21900, 21999, 10


def _pid_alive(pid):
    try:
        os.kill(pid, 0)
        return True
    except ProcessLookupError:
        return False
    except OSError:
        return True


def _port_free(p):
    """nothing listens on the port and it can be bound"""
    c = socket.socket()
    c.settimeout(0.3)
    try:
        if c.connect_ex(("127.0.0.1", p)) == 0:
            return False
    finally:
        c.close()
    s = socket.socket()
    try:
        s.bind(("127.0.0.1", p))
        return True
    except OSError:
        return False
    finally:
        s.close()


def claim_port_block(verif_root, n):
    """Two runs of ./check C19 may overlap. Under an exclusive file lock pick a block of PORT_BLOCK consecutive ports
    inside 21900-21999 that no live run has claimed and on which nothing listens; the claim (a file holding our pid)
    lasts until release_port_block. Returns (ports, claim_path); raises when no block is usable (never starts a
    server on a port somebody else listens on)."""
    import fcntl
    assert n <= PORT_BLOCK
    d = os.path.join(verif_root, "build", "c19-ports")
    os.makedirs(d, exist_ok=True)
    with open(os.path.join(d, "lock"), "w") as lk:
        fcntl.flock(lk, fcntl.LOCK_EX)
        try:
            nblocks = (PORT_HI - PORT_LO + 1) // PORT_BLOCK
            first = os.getpid() % nblocks
            for k in range(nblocks):
                base = PORT_LO + ((first + k) % nblocks) * PORT_BLOCK
                claim = os.path.join(d, "block-%d" % base)
                try:
                    owner = int(open(claim).read().strip() or "0")
                except (OSError, ValueError):
                    owner = 0
                if owner and _pid_alive(owner) and os.path.exists(claim):
                    continue
                ports = list(range(base, base + n))
                if not all(_port_free(p) for p in ports):
                    continue
                with open(claim, "w") as f:
                    f.write(str(os.getpid()))
                return ports, claim
        finally:
            fcntl.flock(lk, fcntl.LOCK_UN)
    raise RuntimeError("no free block of %d ports in %d-%d (all claimed or something listens)" % (n, PORT_LO, PORT_HI))


def release_port_block(claim):
    try:
        os.unlink(claim)
    except OSError:
        pass


class Server:
    def __init__(self, ck, binp, runtime_config=True, pprof=True, product=None, name="srv"):
        self.ck = ck
        self.product = product
        self.dir = os.path.join(ck.work, name)
        os.makedirs(self.dir, exist_ok=True)
        src = open(os.path.join(ck.repo, "config", "openGemini.singlenode.conf")).read()
        old = ["8092", "8088", "8091", "8086", "8087", "8400", "8401", "8305"]
        ports, self.claim = claim_port_block(ck.verif, len(old))
        for a, b in zip(old, ports):
            src = src.replace("127.0.0.1:" + a, "127.0.0.1:%d" % b)
        self.port = ports[3]
        src = src.replace("/tmp/openGemini", self.dir + "/og")
        src = src.replace("/opt/dbs/runtimeconfig/overrides.yml", self.dir + "/overrides.yml")
        src = src.replace("[http]\n", "[http]\n  auth-enabled = true\n  shared-secret = \"%s\"\n  pprof-enabled = %s\n"
                                      "  flux-enabled = false\n" % (SECRET, "true" if pprof else "false"))
        if product != "logkeeper":
            # (the log-store record writes go through the RecordWriter that only exists with the flight service on)
            src = src.replace("flight-enabled = true", "flight-enabled = false")
        src = src.replace("store-enabled = true", "store-enabled = false").replace('pushers = "http"', 'pushers = ""')
        if product:
            src = src.replace("[common]\n", "[common]\n  product-type = \"%s\"\n" % product)
        if runtime_config:
            src = src.replace("[runtime-config]\n  enabled = false", "[runtime-config]\n  enabled = true")
        # the Prometheus result cache on (it is off in the shipped file): a cached answer must not bypass authorization
        src += ("\n[http.result-cache]\n  result-cache-enabled = true\n  split-queries-by-interval = \"5m\"\n  max-cache-freshness = \"1m\"\n"
                "  cache-type = 0\n  memcache-size = 104857600\n  memcache-expiration = \"1h\"\n")
        open(os.path.join(self.dir, "conf.toml"), "w").write(src)
        open(os.path.join(self.dir, "overrides.yml"), "w").write("overrides: {}\n")
        self.log = open(os.path.join(self.dir, "server.log"), "w")
        env = dict(os.environ)
        env["HOME"] = self.dir  # keep default loggers away from /root/.openGemini
        try:
            self.proc = subprocess.Popen([binp, "-config", os.path.join(self.dir, "conf.toml")], cwd=self.dir, env=env,
                                         stdout=self.log, stderr=subprocess.STDOUT, start_new_session=True)
        except OSError:
            release_port_block(self.claim)
            raise

    def stop(self):
        if self.proc.poll() is None:
            try:
                os.killpg(self.proc.pid, signal.SIGTERM)   # the session we created: pgid == pid of our child
            except OSError:
                pass
            try:
                self.proc.wait(timeout=8)
            except subprocess.TimeoutExpired:
                try:
                    os.killpg(self.proc.pid, signal.SIGKILL)
                except OSError:
                    pass
                self.proc.wait(timeout=10)
        self.log.close()
        release_port_block(self.claim)

    def alive(self):
        return self.proc.poll() is None

    # -- one HTTP request; returns (status, body text)
    def req(self, method, path, params=None, headers=None, body=None, timeout=20):
        url = path
        if params:
            url += ("&" if "?" in url else "?") + urllib.parse.urlencode(params, doseq=True)
        conn = http.client.HTTPConnection("127.0.0.1", self.port, timeout=timeout)
        try:
            conn.request(method, url, body=body, headers=headers or {})
            r = conn.getresponse()
            data = r.read(1 << 20)
            return r.status, data.decode("utf-8", "replace")
        except (OSError, http.client.HTTPException) as e:
            return -1, "transport error: %r" % (e,)
        finally:
            conn.close()

    def admin_q(self, q, db=None, method="POST"):
        params = {"q": q}
        if db:
            params["db"] = db
        return self.req(method, "/query", params, basic_header(*ADMIN))

    def wait_up(self, timeout=60):
        t0 = time.time()
        while time.time() - t0 < timeout:
            if not self.alive():
                return False
            st, _ = self.req("GET", "/ping", timeout=2)
            if st == 204:
                return True
            time.sleep(0.2)
        return False


def basic_header(u, p):
    return {"Authorization": "Basic " + base64.b64encode(("%s:%s" % (u, p)).encode()).decode()}


def result_ok(status, body):
    """2xx and no statement-level error"""
    if status // 100 != 2:
        return False
    try:
        j = json.loads(body)
    except ValueError:
        return True
    if isinstance(j, dict):
        if j.get("error"):
            return False
        for r in j.get("results", []) or []:
            if isinstance(r, dict) and r.get("error"):
                return False
    return True


def setup(srv, data=True):
    """create the administrator (first user, bootstrap exception), databases, users, grants, marker data"""
    st, b = srv.req("POST", "/query", {"q": "CREATE USER %s WITH PASSWORD '%s' WITH ALL PRIVILEGES" % ADMIN})
    if not result_ok(st, b):
        return "cannot create admin: %s %s" % (st, b[:200])
    # bootstrap window closed?
    st, b = srv.req("POST", "/query", {"q": "SHOW DATABASES"})
    if st != 401:
        return "after creating the admin an anonymous query is answered %s" % st
    for q in ["CREATE DATABASE db1", "CREATE DATABASE db2", "CREATE DATABASE c19drop",
              "CREATE RETENTION POLICY c19rpdrop ON db1 DURATION 1d REPLICATION 1"]:
        st, b = srv.admin_q(q)
        if not result_ok(st, b):
            return "setup %s: %s %s" % (q, st, b[:200])
    for name, (pw, admin, privs) in USERS.items():
        if name == "root":
            continue
        st, b = srv.admin_q("CREATE USER %s WITH PASSWORD '%s'%s" % (name, pw, " WITH PARTITION PRIVILEGES" if name in RWUSERS else ""))
        if not result_ok(st, b):
            return "setup create user %s: %s %s" % (name, st, b[:200])
        for db, p in privs.items():
            st, b = srv.admin_q("GRANT %s ON %s TO %s" % (p, db, name))
            if not result_ok(st, b):
                return "setup grant %s: %s %s" % (name, st, b[:200])
    if not data:
        return None
    for db in ("db1", "db2"):
        st, b = srv.req("POST", "/write", {"db": db}, basic_header(*ADMIN),
                        "c19metric,job=%s value=424242.5\nc19w,case=seed v=1\nc19dropmst,case=seed v=1\n" % MARK[db])
        if st != 204:
            return "setup write %s: %s %s" % (db, st, b[:200])
    t0 = time.time()
    while time.time() - t0 < 20:
        ok = True
        for db in ("db1", "db2"):
            st, b = srv.admin_q("SELECT * FROM c19metric", db)
            if MARK[db] not in b:
                ok = False
        if ok:
            return None
        time.sleep(0.25)
    return "marker data did not become visible"


SNAP_Q = ("SHOW DATABASES; SHOW USERS; SHOW GRANTS FOR grantee; SHOW GRANTS FOR rouser; SHOW GRANTS FOR wouser; "
          "SHOW GRANTS FOR otheruser; SHOW GRANTS FOR pwuser; SHOW GRANTS FOR all1user; SHOW GRANTS FOR rwacct; SHOW RETENTION POLICIES ON db1; SHOW RETENTION POLICIES ON db2; "
          "SHOW CONTINUOUS QUERIES")
# (measurement listings come from the stores and lag behind writes: data-level effects are checked by landed_cases / seeds_present)


# names only the administrator creates and deletes in the route matrix (its deletions complete asynchronously and are its
# right): they are not part of the fixture the catalogue snapshot protects
ADMIN_PRIVATE = "c19admrepo"


def seeds_present(srv):
    """the seed points of both databases are still there (nothing was dropped or deleted)"""
    for _ in range(12):
        missing = []
        for db in ("db1", "db2"):
            for mst in ("c19metric", "c19w", "c19dropmst"):
                st, b = srv.admin_q("SELECT * FROM %s LIMIT 1" % mst, db)
                if '"series"' not in b:
                    missing.append("%s.%s" % (db, mst))
        if not missing:
            return []
        time.sleep(0.25)
    return missing


def snapshot(srv):
    st, b = srv.admin_q(SNAP_Q)
    try:
        j = json.loads(b)
        res = []
        for r in j["results"]:
            rows = []
            for s in r.get("series", []) or []:
                if ADMIN_PRIVATE in str(s.get("name")):
                    continue
                rows.append([s.get("name"), s.get("columns"),
                             sorted(x for x in (json.dumps(v) for v in s.get("values", []) or []) if ADMIN_PRIVATE not in x)])
            res.append(rows if not r.get("error") else ["error", r.get("error")])
        if getattr(srv, "product", None) == "logkeeper":
            # a repository that is only MARKED deleted still shows in SHOW DATABASES; the log-store listing drops it at once
            st2, b2 = srv.req("GET", "/api/v1/repository", None, basic_header(*ADMIN))
            try:
                b2 = json.dumps([x for x in json.loads(b2) if ADMIN_PRIVATE not in str(x)])
            except ValueError:
                pass
            res.append(["repositories", st2, b2[:2000]])
        return json.dumps(res, sort_keys=True)
    except (ValueError, KeyError):
        return "snapshot-failed %s %s" % (st, b[:200])


def landed_cases(srv):
    """case ids of the points that landed in measurement c19w, per database"""
    res = {}
    for db in ("db1", "db2"):
        st, b = srv.admin_q('SELECT count(v) FROM c19w GROUP BY "case"', db)
        ids = set()
        try:
            for r in json.loads(b)["results"]:
                for s in r.get("series", []) or []:
                    ids.add(s.get("tags", {}).get("case"))
        except (ValueError, KeyError):
            ids.add("query-failed")
        res[db] = ids
    return res


# ---------------------------------------------------------------------------------------------------------------
# credentials

def cred_variants(tier):
    """list of (class, transport, label, params, headers, coq creds_in term)"""
    now = int(time.time())
    V = []

    def coq_s(s):
        return '"' + s.replace('"', '""') + '"'

    def up(u, p):
        return "(Some (%s, %s))" % (coq_s(u), coq_s(p))

    def add(cls, tr, label, params, headers, coq):
        V.append({"cls": cls, "transport": tr, "label": label, "params": params, "headers": headers, "coq": coq})

    def hdr(v):
        return {"Authorization": v}

    add("none", "-", "no credentials", {}, {}, 'mk_creds_in "" "" HNone')
    # malformed
    add("malformed", "basic", "Basic with undecodable payload", {}, hdr("Basic !!!notbase64"), 'mk_creds_in "" "" (HBasic None)')
    add("malformed", "other", "unknown scheme", {}, hdr("Foo bar"), 'mk_creds_in "" "" HGarbage')
    add("malformed", "bearer", "Bearer that is not a JWT", {}, hdr("Bearer not.a.jwt"),
        'mk_creds_in "" "" (HBearer (mk_token false false None))')
    add("malformed", "token", "Token without colon", {}, hdr("Token nocolon"), 'mk_creds_in "" "" (HToken None)')
    add("malformed", "url", "u without p", {"u": "root"}, {}, 'mk_creds_in "root" "" HNone')
    add("malformed", "url", "p without u", {"p": ADMIN[1]}, {}, 'mk_creds_in "" %s HNone' % coq_s(ADMIN[1]))
    add("malformed", "bearer", "JWT signed with another secret", {},
        hdr("Bearer " + jwt({"username": "root", "exp": now + 3600}, secret="not-the-secret")),
        'mk_creds_in "" "" (HBearer (mk_token false true (Some "root")))')
    add("malformed", "bearer", "JWT without exp", {}, hdr("Bearer " + jwt({"username": "root"})),
        'mk_creds_in "" "" (HBearer (mk_token true false (Some "root")))')
    add("malformed", "bearer", "expired JWT", {}, hdr("Bearer " + jwt({"username": "root", "exp": now - 3600})),
        'mk_creds_in "" "" (HBearer (mk_token false true (Some "root")))')
    add("malformed", "bearer", "JWT without username", {}, hdr("Bearer " + jwt({"exp": now + 3600})),
        'mk_creds_in "" "" (HBearer (mk_token true true None))')
    add("malformed", "bearer", "JWT with empty username", {}, hdr("Bearer " + jwt({"username": "", "exp": now + 3600})),
        'mk_creds_in "" "" (HBearer (mk_token true true (Some "")))')
    add("malformed", "bearer", "JWT alg none", {}, hdr("Bearer " + jwt({"username": "root", "exp": now + 3600}, alg="none")),
        'mk_creds_in "" "" (HBearer (mk_token false true (Some "root")))')
    add("malformed", "basic", "Basic with empty user name", {}, basic_header("", ADMIN[1]),
        'mk_creds_in "" "" (HBasic %s)' % up("", ADMIN[1]))
    add("malformed", "other", "lower-case bearer scheme", {}, hdr("bearer " + jwt({"username": "root", "exp": now + 3600})),
        'mk_creds_in "" "" HGarbage')
    # unknown user
    gp = "Gh#Pw12345xy"
    add("unknown", "basic", "unknown user", {}, basic_header("ghostuser", gp), 'mk_creds_in "" "" (HBasic %s)' % up("ghostuser", gp))
    add("unknown", "url", "unknown user", {"u": "ghostuser", "p": gp}, {}, 'mk_creds_in "ghostuser" %s HNone' % coq_s(gp))
    add("unknown", "token", "unknown user", {}, hdr("Token ghostuser:" + gp), 'mk_creds_in "" "" (HToken %s)' % up("ghostuser", gp))
    add("unknown", "bearer", "unknown user", {}, hdr("Bearer " + jwt({"username": "ghostuser", "exp": now + 3600})),
        'mk_creds_in "" "" (HBearer (mk_token true true (Some "ghostuser")))')
    # URL credentials win over the header: unknown user in the URL plus a valid admin header is rejected
    add("unknown", "url", "unknown user in URL, valid admin header", {"u": "ghostuser", "p": gp}, basic_header(*ADMIN),
        'mk_creds_in "ghostuser" %s (HBasic %s)' % (coq_s(gp), up(*ADMIN)))
    # wrong password (only ever against lockuser: repeated failures lock the account)
    bp = "Bad#Pw12345xy"
    add("wrongpw", "basic", "wrong password", {}, basic_header("lockuser", bp), 'mk_creds_in "" "" (HBasic %s)' % up("lockuser", bp))
    add("wrongpw", "url", "wrong password", {"u": "lockuser", "p": bp}, {}, 'mk_creds_in "lockuser" %s HNone' % coq_s(bp))
    add("wrongpw", "token", "wrong password", {}, hdr("Token lockuser:" + bp), 'mk_creds_in "" "" (HToken %s)' % up("lockuser", bp))
    # valid users
    for cls, name in CLASS_USER.items():
        pw = USERS[name][0]
        add(cls, "basic", "valid", {}, basic_header(name, pw), 'mk_creds_in "" "" (HBasic %s)' % up(name, pw))
        add(cls, "url", "valid", {"u": name, "p": pw}, {}, 'mk_creds_in %s %s HNone' % (coq_s(name), coq_s(pw)))
        add(cls, "token", "valid", {}, hdr("Token %s:%s" % (name, pw)), 'mk_creds_in "" "" (HToken %s)' % up(name, pw))
        add(cls, "bearer", "valid", {}, hdr("Bearer " + jwt({"username": name, "exp": now + 3600})),
            'mk_creds_in "" "" (HBearer (mk_token true true (Some %s)))' % coq_s(name))
    # valid URL credentials win over a garbage header
    add("admin", "url", "valid URL credentials, garbage header", {"u": ADMIN[0], "p": ADMIN[1]}, hdr("Foo bar"),
        'mk_creds_in %s %s HGarbage' % (coq_s(ADMIN[0]), coq_s(ADMIN[1])))
    return V


def extra_creds():
    """basic-transport credentials of the extra classes (ALL on db1; partition privileges)"""
    V = []
    for cls, name in EXTRA_CLASS_USER.items():
        pw = USERS[name][0]
        V.append({"cls": cls, "transport": "basic", "label": "valid", "params": {}, "headers": basic_header(name, pw),
                  "coq": 'mk_creds_in "" "" (HBasic (Some ("%s", "%s")))' % (name, pw)})
    return V


def coq_users(overrides=None):
    """Coq term for the user table (order = creation order). overrides: {name: {db: priv}}"""
    pm = {"READ": "ReadPriv", "WRITE": "WritePriv", "ALL": "AllPriv", "NONE": "NoPriv"}
    items = []
    for name, (pw, admin, privs) in USERS.items():
        pr = dict(privs)
        if overrides and name in overrides:
            pr = overrides[name]
        items.append('mk_user "%s" "%s" %s %s [%s]' % (name, pw, "true" if admin else "false", "true" if name in RWUSERS else "false",
                                                       "; ".join('("%s", %s)' % (d, pm[p]) for d, p in pr.items())))
    return "[" + ";\n  ".join(items) + "]"


def can(cls, what, db, overrides=None):
    """ground truth of the fixture: may a user of this class read/write db (admin: everything)"""
    if cls in INVALID or (cls not in CLASS_USER and cls not in EXTRA_CLASS_USER):
        return False
    name = CLASS_USER.get(cls) or EXTRA_CLASS_USER[cls]
    pw, admin, privs = USERS[name]
    if admin or name in RWUSERS:
        return True
    p = privs.get(db)
    return p == "ALL" or p == what


# ---------------------------------------------------------------------------------------------------------------
# well-formed protocol bodies (hand-rolled protobuf + snappy block format; python stdlib only)

import struct


def pb_varint(n):
    n &= (1 << 64) - 1
    out = bytearray()
    while True:
        b = n & 0x7F
        n >>= 7
        if n:
            out.append(b | 0x80)
        else:
            out.append(b)
            return bytes(out)


def pb_bytes(fno, b):
    if isinstance(b, str):
        b = b.encode()
    return pb_varint((fno << 3) | 2) + pb_varint(len(b)) + b


def pb_int(fno, n):
    return pb_varint((fno << 3) | 0) + pb_varint(n)


def pb_double(fno, x):
    return pb_varint((fno << 3) | 1) + struct.pack("<d", x)


def snappy_block(data):
    """valid snappy block consisting of literals only"""
    out = bytearray(pb_varint(len(data)))
    i = 0
    while i < len(data):
        chunk = data[i:i + 60]
        out.append((len(chunk) - 1) << 2)
        out += chunk
        i += len(chunk)
    return bytes(out)


def snappy_decode(data):
    """snappy block decoder (literals and copies); returns None when malformed"""
    try:
        n, shift, i = 0, 0, 0
        while True:
            b = data[i]
            i += 1
            n |= (b & 0x7F) << shift
            if not b & 0x80:
                break
            shift += 7
        out = bytearray()
        while i < len(data):
            tag = data[i]
            i += 1
            t = tag & 3
            if t == 0:
                ln = tag >> 2
                if ln >= 60:
                    k = ln - 59
                    ln = int.from_bytes(data[i:i + k], "little")
                    i += k
                ln += 1
                out += data[i:i + ln]
                i += ln
                continue
            if t == 1:
                ln = ((tag >> 2) & 7) + 4
                off = ((tag >> 5) << 8) | data[i]
                i += 1
            elif t == 2:
                ln = (tag >> 2) + 1
                off = int.from_bytes(data[i:i + 2], "little")
                i += 2
            else:
                ln = (tag >> 2) + 1
                off = int.from_bytes(data[i:i + 4], "little")
                i += 4
            for _ in range(ln):
                out.append(out[-off])
        return bytes(out) if len(out) == n else None
    except (IndexError, ValueError):
        return None


def prom_write_body(metric=None, labels=None, value=1.0, ts_ms=None, md_family=None):
    """snappy(prompb.WriteRequest) with one time series of one sample and/or one metadata entry"""
    msg = b""
    if metric:
        ls = [("__name__", metric)] + sorted((labels or {}).items())
        ts = b"".join(pb_bytes(1, pb_bytes(1, k) + pb_bytes(2, v)) for k, v in ls)
        ts += pb_bytes(2, pb_double(1, value) + pb_int(2, ts_ms if ts_ms is not None else int(time.time() * 1000)))
        msg += pb_bytes(1, ts)
    if md_family:
        msg += pb_bytes(3, pb_int(1, 2) + pb_bytes(2, md_family) + pb_bytes(4, "c19 help") + pb_bytes(5, "c19unit"))
    return snappy_block(msg)


def prom_read_body(metric, start_ms=0, end_ms=None):
    """snappy(prompb.ReadRequest): one query, matcher __name__ = metric"""
    end_ms = end_ms if end_ms is not None else int(time.time() * 1000) + 3600000
    q = pb_int(1, start_ms) + pb_int(2, end_ms) + pb_bytes(3, pb_int(1, 0) + pb_bytes(2, "__name__") + pb_bytes(3, metric))
    return snappy_block(pb_bytes(1, q))


def req_raw(srv, method, path, params=None, headers=None, body=None, timeout=20):
    url = path
    if params:
        url += ("&" if "?" in url else "?") + urllib.parse.urlencode(params, doseq=True)
    conn = http.client.HTTPConnection("127.0.0.1", srv.port, timeout=timeout)
    try:
        conn.request(method, url, body=body, headers=headers or {})
        r = conn.getresponse()
        return r.status, r.read(1 << 22)
    except (OSError, http.client.HTTPException) as e:
        return -1, ("transport error: %r" % (e,)).encode()
    finally:
        conn.close()


def pb_fixed64(fno, n):
    return pb_varint((fno << 3) | 1) + struct.pack("<Q", n)


def _otlp_kv(k, v):
    return pb_bytes(1, k) + pb_bytes(2, pb_bytes(1, v))


def otlp_body(kind, tag):
    """ExportMetricsServiceRequest / ExportLogsServiceRequest / ExportTraceServiceRequest with one item tagged `tag`"""
    now = int(time.time() * 1e9)
    if kind == "metrics":
        dp = pb_bytes(7, _otlp_kv("case", tag)) + pb_fixed64(2, now - 1000000) + pb_fixed64(3, now) + pb_double(4, 7.5)
        metric = pb_bytes(1, "gaugeval") + pb_bytes(5, pb_bytes(1, dp))
        # the scope name becomes the measurement
        return pb_bytes(1, pb_bytes(2, pb_bytes(1, pb_bytes(1, "c19otlp_metric")) + pb_bytes(2, metric)))
    if kind == "logs":
        rec = pb_fixed64(1, now) + pb_int(2, 9) + pb_bytes(3, "INFO") + pb_bytes(5, pb_bytes(1, "c19otlp log " + tag)) + \
            pb_bytes(6, _otlp_kv("case", tag))
        return pb_bytes(1, pb_bytes(2, pb_bytes(2, rec)))
    if kind == "traces":
        h = hashlib.sha256(tag.encode()).digest()
        span = pb_bytes(1, h[:16]) + pb_bytes(2, h[16:24]) + pb_bytes(5, "c19otlp span " + tag) + pb_int(6, 1) + \
            pb_fixed64(7, now - 1000000) + pb_fixed64(8, now) + pb_bytes(9, _otlp_kv("case", tag))
        return pb_bytes(1, pb_bytes(2, pb_bytes(2, span)))
    raise ValueError(kind)
